// One observed placement call: Begin / Cb* / EndReturn|EndThrow events with the full projected circuit.
#pragma once
#include <optional>
#include <string>

#include "coloquinte.hpp"
#include "project.hpp"
#include "trace.hpp"

using namespace coloquinte;
using vj::Value;

inline const char *stepName(PlacementStep s) {
  switch (s) {
    case PlacementStep::LowerBound: return "LowerBound";
    case PlacementStep::UpperBound: return "UpperBound";
    case PlacementStep::Detailed: return "Detailed";
    case PlacementStep::PenaltyUpdate: return "PenaltyUpdate";
  }
  return "?";
}

struct Ctx {
  int run;
  bool withCb;
  bool light;  // do not log LowerBound callbacks' circuits in full (size)
};

// One placement call with an observing callback; logs Begin / Cb* / EndReturn|EndThrow. Returns true if it returned.
inline bool call(const Ctx &cx, Circuit &c, const char *obj, const char *stage, const ColoquinteParameters &p) {
  Value b = vt::ev("Begin");
  b.set("run", cx.run).set("obj", obj).set("stage", stage).set("cb", cx.withCb);
  vt::emit(b);
  int idx = 0;
  PlacementCallback cb = [&](PlacementStep s) {
    // no call of a stage makes more than a few hundred callbacks (at most 60 steps): beyond that the trace says so once and stops
    // logging, so that a call that never ends cannot fill the disk before its time budget expires
    if (idx >= 1000) {
      if (idx == 1000) {
        Value fl = vt::ev("CbFlood");
        fl.set("run", cx.run).set("obj", obj).set("idx", idx);
        vt::emit(fl);
      }
      ++idx;
      return;
    }
    Value e = vt::ev("Cb");
    e.set("run", cx.run).set("obj", obj).set("step", stepName(s)).set("idx", idx++).set("circ", vp::circuitToJson(c));
    e.set("wl", c.hpwl());
    vt::emit(e);
  };
  std::optional<PlacementCallback> ocb;
  if (cx.withCb) ocb = cb;
  try {
    std::string st = stage;
    if (st == "global") c.placeGlobal(p, ocb);
    else if (st == "legalize") c.legalize(p, ocb);
    else c.placeDetailed(p, ocb);
  } catch (std::exception &ex) {
    Value e = vt::ev("EndThrow");
    e.set("run", cx.run).set("obj", obj).set("what", ex.what()).set("circ", vp::circuitToJson(c)).set("wl", c.hpwl());
    vt::emit(e);
    return false;
  }
  Value e = vt::ev("EndReturn");
  e.set("run", cx.run).set("obj", obj).set("circ", vp::circuitToJson(c)).set("wl", c.hpwl());
  vt::emit(e);
  return true;
}

