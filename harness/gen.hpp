// Seeded generators of circuits and parameter sets inside the domains stated by the properties.
#pragma once
#include <algorithm>
#include <cmath>
#include <cstdint>
#include <limits>
#include <random>
#include <vector>

#include "coloquinte.hpp"
#include "json.hpp"
#include "project.hpp"

namespace vg {
using namespace coloquinte;

struct Rng {
  std::mt19937_64 g;
  explicit Rng(uint64_t s) : g(s * 0x9E3779B97F4A7C15ULL + 0x1234567ULL) {}
  uint64_t u() { return g(); }
  // uniform in [a, b]
  long long in(long long a, long long b) {
    if (b <= a) return a;
    return a + (long long)(u() % (uint64_t)(b - a + 1));
  }
  bool chance(double p) { return (u() >> 11) * (1.0 / 9007199254740992.0) < p; }
  double real(double a, double b) { return a + (b - a) * ((u() >> 11) * (1.0 / 9007199254740992.0)); }
  template <class T>
  const T &pick(const std::vector<T> &v) {
    return v[u() % v.size()];
  }
};

struct GenOpts {
  int maxMovable = 10;
  int maxFixed = 4;
  int maxNets = 10;
  bool multiRow = true;     // multi-row cells and macros
  bool turned = true;       // W/E/FW/FE orientations on polarity-ANY cells
  bool polar = true;        // row polarities
  bool splitRows = true;
  bool rowGaps = true;
  bool fixedNonObstruction = true;
  bool zeroSizeFixed = true;
  bool farTargets = true;
  int scaleShift = 0;       // coordinates multiplied by roughly 2^scaleShift
  double utilLo = 0.05, utilHi = 1.3;
  bool globalDomain = false;  // C06 domain: rows >= 4 row-heights wide, >= 1 movable cell of positive area
  bool singleRowOnly = false;
  bool connectAll = false;  // every movable cell shares a net with another cell (no two cells with identical, net-less targets)
  bool clump = false;       // every movable cell starts on / beyond one edge of the rows (all cells compete for the same rows)
  bool twoTypes = false;    // the movable cells alternate between two library cells of different heights (C18: systematic rounding)
  bool tallMix = false;     // half of the movable cells are several rows high (mixed heights)
  bool unitRows = false;    // rows one unit high: tiny cells, total movable area comparable to the number of cells
  bool zeroAreaMovable = false;  // C06: movable cells of zero area are allowed next to >= 1 cell of positive area
};

// C06 domain, made precise (DESIGN.md section 7): at least one free row segment is wider than twice the side margin
// (margin = sideMargin x smallest positive cell height), otherwise the density grid is empty.
inline bool inGlobalDomain(const Circuit &c, double sideMargin) {
  int minH = std::numeric_limits<int>::max();
  bool positive = false;
  for (int i = 0; i < c.nbCells(); ++i) {
    if (c.cellHeight_[i] > 0) minH = std::min(minH, c.cellHeight_[i]);
    if (!c.cellIsFixed_[i] && c.area(i) > 0) positive = true;
    // cell areas are handed to the rough legalizer as int: a single cell of 2^31 units of area or more is outside every domain here
    if (!c.cellIsFixed_[i] && c.area(i) >= (1LL << 30)) return false;
  }
  if (!positive || minH == std::numeric_limits<int>::max()) return false;
  long long margin = (long long)(sideMargin * minH);
  for (const Row &r : c.computeRows())
    if (r.width() > 2 * margin + minH) return true;
  return false;
}

// Moves the whole circuit (rows, cells) by (tx, ty): every property of the placement entry points is translation invariant
// as long as coordinates stay well inside the int range.
inline void translateCircuit(Circuit &c, int tx, int ty) {
  for (int i = 0; i < c.nbCells(); ++i) {
    c.cellX_[i] += tx;
    c.cellY_[i] += ty;
  }
  for (Row &r : c.rows_) {
    r.minX += tx;
    r.maxX += tx;
    r.minY += ty;
    r.maxY += ty;
  }
}

// Magnifies the whole circuit (rows, cells, sizes, pin offsets) by the integer factor f.
inline void magnifyCircuit(Circuit &c, int f) {
  for (int i = 0; i < c.nbCells(); ++i) {
    c.cellX_[i] *= f;
    c.cellY_[i] *= f;
    c.cellWidth_[i] *= f;
    c.cellHeight_[i] *= f;
  }
  for (int &v : c.pinXOffsets_) v *= f;
  for (int &v : c.pinYOffsets_) v *= f;
  for (Row &r : c.rows_) {
    r.minX *= f;
    r.maxX *= f;
    r.minY *= f;
    r.maxY *= f;
  }
}

// The orientation a cell of the given row polarity takes in a row of the given orientation, as the documentation of CellRowPolarity
// states it - the harness's own table, deliberately not the library's cellOrientationInRow (an oracle input must not come from the
// code under test).  UNKNOWN = keeps its orientation (ANY), INVALID = the row is forbidden.
inline CellOrientation expectedOrientationInRow(CellRowPolarity pol, CellOrientation row) {
  auto mirroredTopBottom = [](CellOrientation o) {
    switch (o) {
      case CellOrientation::N: return CellOrientation::FS;
      case CellOrientation::FS: return CellOrientation::N;
      case CellOrientation::S: return CellOrientation::FN;
      case CellOrientation::FN: return CellOrientation::S;
      case CellOrientation::E: return CellOrientation::FW;
      case CellOrientation::FW: return CellOrientation::E;
      case CellOrientation::W: return CellOrientation::FE;
      case CellOrientation::FE: return CellOrientation::W;
      default: return CellOrientation::INVALID;
    }
  };
  bool northLike = row == CellOrientation::N || row == CellOrientation::FN || row == CellOrientation::W || row == CellOrientation::FW;
  bool southLike = row == CellOrientation::S || row == CellOrientation::FS || row == CellOrientation::E || row == CellOrientation::FE;
  switch (pol) {
    case CellRowPolarity::ANY: return CellOrientation::UNKNOWN;
    case CellRowPolarity::SAME: return row;
    case CellRowPolarity::OPPOSITE: return mirroredTopBottom(row);
    case CellRowPolarity::NW: return northLike ? row : CellOrientation::INVALID;
    case CellRowPolarity::SE: return southLike ? row : CellOrientation::INVALID;
  }
  return CellOrientation::INVALID;
}

struct GenInfo {
  int rowHeight = 1;
  long long freeWidth = 0;
};

inline Circuit genCircuit(Rng &r, const GenOpts &o, GenInfo *info = nullptr) {
  int unit = 1;
  if (o.scaleShift > 0) unit = (int)r.in(1LL << std::max(0, o.scaleShift - 1), 1LL << o.scaleShift);
  int H = (int)r.pick(std::vector<int>{1, 2, 2, 3, 4, 8}) * unit;
  if (o.unitRows) H = unit;
  int nLevels = (int)r.in(1, 5);
  int ox = (int)r.in(-20, 20) * unit, oy = (int)r.in(-10, 10) * H;
  if (r.chance(0.3)) {
    ox = 0;
    oy = 0;
  }
  int minW = o.globalDomain ? 6 * H : std::max(2 * unit, H);
  int W = (int)r.in(minW / unit + 1, minW / unit + 30) * unit;
  if (o.twoTypes) W *= 8;   // room for many cells of both types
  int orientMode = (int)r.in(0, 3);  // 0 alternating N/FS, 1 uniform, 2 irregular, 3 alternating FN/S
  std::vector<CellOrientation> rowOr = {CellOrientation::N, CellOrientation::S, CellOrientation::FN,
                                        CellOrientation::FS};
  CellOrientation uni = r.pick(rowOr);
  std::vector<Row> rows;
  int y = oy;
  for (int l = 0; l < nLevels; ++l) {
    if (o.rowGaps && l > 0 && r.chance(0.15)) y += H * (int)r.in(1, 2);
    CellOrientation ro;
    if (orientMode == 0) ro = (l % 2 == 0) ? CellOrientation::N : CellOrientation::FS;
    else if (orientMode == 1) ro = uni;
    else if (orientMode == 2) ro = r.pick(rowOr);
    else ro = (l % 2 == 0) ? CellOrientation::FN : CellOrientation::S;
    int x0 = ox + (r.chance(0.2) ? (int)r.in(0, 3) * unit : 0);
    int x1 = ox + W - (r.chance(0.2) ? (int)r.in(0, 3) * unit : 0);
    if (x1 - x0 < minW) {
      x0 = ox;
      x1 = ox + W;
    }
    if (o.splitRows && r.chance(0.25) && (x1 - x0) >= 2 * minW + 2 * unit) {
      int cut0 = (int)r.in((x0 + minW) / unit, (x1 - minW - unit) / unit) * unit;
      int cut1 = std::min(x1 - minW, cut0 + (int)r.in(0, 3) * unit);  // gap of 0 = abutting segments
      if (cut0 >= x0 + minW && cut1 <= x1 - minW && cut1 >= cut0) {
        rows.emplace_back(x0, cut0, y, y + H, ro);
        rows.emplace_back(cut1, x1, y, y + H, ro);
      } else {
        rows.emplace_back(x0, x1, y, y + H, ro);
      }
    } else {
      rows.emplace_back(x0, x1, y, y + H, ro);
    }
    y += H;
  }
  if (r.chance(0.3)) std::shuffle(rows.begin(), rows.end(), r.g);
  long long rowArea = 0;
  for (auto &rw : rows) rowArea += rw.area();
  int topY = y;

  int nMov = (int)r.in(1, o.maxMovable);
  int nFix = (int)r.in(0, o.maxFixed);
  int n = nMov + nFix;
  std::vector<int> w(n), h(n), x(n), yy(n);
  std::vector<bool> fixed(n, false), obs(n, true);
  std::vector<CellRowPolarity> pol(n, CellRowPolarity::ANY);
  std::vector<CellOrientation> orient(n, CellOrientation::N);
  // which indices are fixed: random positions in the vector
  std::vector<int> idx(n);
  for (int i = 0; i < n; ++i) idx[i] = i;
  std::shuffle(idx.begin(), idx.end(), r.g);
  for (int k = 0; k < nFix; ++k) fixed[idx[k]] = true;

  double util = r.real(o.utilLo, o.utilHi);
  long long budget = (long long)(util * (double)rowArea);
  long long avgArea = std::max<long long>(1LL * unit * H, budget / std::max(1, nMov));
  std::vector<CellOrientation> all8 = {CellOrientation::N, CellOrientation::S, CellOrientation::W, CellOrientation::E,
                                       CellOrientation::FN, CellOrientation::FS, CellOrientation::FW, CellOrientation::FE};
  std::vector<CellOrientation> unturned = {CellOrientation::N, CellOrientation::S, CellOrientation::FN, CellOrientation::FS};
  for (int i = 0; i < n; ++i) {
    if (fixed[i]) {
      // anywhere: inside, outside, partially covering the rows
      int kind = (int)r.in(0, 5);
      if (kind == 0 && o.zeroSizeFixed) {
        w[i] = 0;
        h[i] = 0;
      } else if (kind == 1) {
        w[i] = (int)r.in(1, 4) * unit;
        h[i] = (int)r.in(1, 3) * H;
      } else {
        w[i] = (int)r.in(1, std::max(2, W / unit / 3)) * unit;
        h[i] = (int)r.in(1, 3 * (H / unit)) * unit;  // not necessarily a multiple of the row height
      }
      x[i] = ox + (int)r.in(-4, W / unit + 2) * unit;
      yy[i] = oy + (int)r.in(-2 * (H / unit), (topY - oy) / unit + H / unit) * unit;
      obs[i] = o.fixedNonObstruction ? r.chance(0.7) : true;
      orient[i] = (o.turned && r.chance(0.3)) ? r.pick(all8) : CellOrientation::N;
      pol[i] = r.chance(0.1) && o.polar ? CellRowPolarity::SAME : CellRowPolarity::ANY;
      continue;
    }
    // movable: placed dimensions first
    int rowsHigh = 1;
    if (o.multiRow && !o.singleRowOnly) {
      double p = r.real(0, 1);
      if (o.tallMix) p *= 0.45;
      if (p < 0.12) rowsHigh = 2;
      else if (p < 0.18) rowsHigh = 3;
      else if (p < 0.22) rowsHigh = (int)r.in(4, 6);
    }
    int ph = rowsHigh * H;
    long long target = std::max<long long>(unit, (long long)(avgArea * r.real(0.3, 1.7)) / ph);
    int pw = (int)std::min<long long>(std::max<long long>(1, target / unit) * unit, (long long)W);
    if (pw <= 0) pw = unit;
    bool narrowTurned = false;
    if (o.turned && rowsHigh > 1 && r.chance(0.3)) {
      // a turned multi-row cell whose unrotated height equals the row height
      pw = H;
      narrowTurned = true;
    }
    CellRowPolarity p = CellRowPolarity::ANY;
    if (o.polar && r.chance(0.4)) {
      if (r.chance(0.8)) {
        // the meaningful combinations
        if (o.singleRowOnly) p = r.pick(std::vector<CellRowPolarity>{CellRowPolarity::SAME, CellRowPolarity::OPPOSITE, CellRowPolarity::NW, CellRowPolarity::SE});
        else if (rowsHigh % 2 == 1) p = r.chance(0.5) ? CellRowPolarity::SAME : CellRowPolarity::OPPOSITE;
        else p = r.chance(0.5) ? CellRowPolarity::NW : CellRowPolarity::SE;
      } else {
        p = r.pick(std::vector<CellRowPolarity>{CellRowPolarity::SAME, CellRowPolarity::OPPOSITE, CellRowPolarity::NW,
                                                CellRowPolarity::SE});
      }
    }
    pol[i] = p;
    CellOrientation oc = CellOrientation::N;
    if (p == CellRowPolarity::ANY) {
      oc = (o.turned && r.chance(0.3)) ? r.pick(all8) : r.pick(unturned);
      if (r.chance(0.5)) oc = CellOrientation::N;
      if (narrowTurned) oc = r.pick(std::vector<CellOrientation>{CellOrientation::W, CellOrientation::E, CellOrientation::FW, CellOrientation::FE});
    } else {
      oc = r.pick(unturned);
    }
    orient[i] = oc;
    if (isTurn(oc)) {
      w[i] = ph;
      h[i] = pw;
    } else {
      w[i] = pw;
      h[i] = ph;
    }
    if (o.twoTypes) {
      // two library cells, drawn once per circuit from the seed of its row height
      Rng tr((uint64_t)H * 7919u + (uint64_t)W * 31u + (uint64_t)n);
      int wA = (int)tr.in(1, 5) * unit, wB = (int)tr.in(1, 7) * unit, kB = (int)tr.in(2, 4);
      orient[i] = CellOrientation::N;
      pol[i] = CellRowPolarity::ANY;
      w[i] = (i % 2 == 0) ? wA : wB;
      h[i] = (i % 2 == 0) ? H : kB * H;
    }
    if (o.zeroAreaMovable && i > 0 && r.chance(0.12)) {
      // zero-area movable cell (a pin-only or placeholder cell)
      if (r.chance(0.5)) w[i] = 0;
      else h[i] = 0;
      pol[i] = CellRowPolarity::ANY;
    }
    if (o.clump) {
      int mode = (int)(((uint64_t)H * 31u + (uint64_t)W * 7u + (uint64_t)n) % 4);
      x[i] = ox + (int)r.in(0, W / unit) * unit;
      yy[i] = mode == 0 ? topY - H : mode == 1 ? topY + 5 * H : mode == 2 ? oy : oy - 5 * H;
    } else if (o.farTargets && r.chance(0.1)) {
      x[i] = ox + (int)r.in(-3 * (W / unit), 4 * (W / unit)) * unit;
      yy[i] = oy + (int)r.in(-10, 15) * H + (int)r.in(0, H / unit) * unit;
    } else {
      x[i] = ox + (int)r.in(-2, W / unit) * unit + (unit > 1 ? (int)r.in(0, unit - 1) : 0);
      yy[i] = oy + (int)r.in(-(H / unit), (topY - oy) / unit) * unit + (unit > 1 ? (int)r.in(0, unit - 1) : 0);
    }
  }
  Circuit c(n);
  c.setCellWidth(w);
  c.setCellHeight(h);
  c.setCellX(x);
  c.setCellY(yy);
  c.setCellIsFixed(fixed);
  c.setCellIsObstruction(obs);
  c.setCellRowPolarity(pol);
  c.setCellOrientation(orient);
  c.setRows(rows);
  int nNets = (int)r.in(0, o.maxNets);
  for (int k = 0; k < nNets; ++k) {
    int deg = (int)r.in(1, 6);
    if (r.chance(0.1)) deg = (int)r.in(1, std::max(1, n));
    std::vector<int> cells, dx, dy;
    for (int j = 0; j < deg; ++j) {
      int cell = (int)r.in(0, n - 1);
      if (j > 0 && r.chance(0.1)) cell = cells[0];  // repeated cell
      cells.push_back(cell);
      if (r.chance(0.15)) {
        // outside the cell outline
        dx.push_back((int)r.in(-3, 3) * unit + w[cell]);
        dy.push_back((int)r.in(-3, 3) * unit);
      } else {
        dx.push_back((int)r.in(0, std::max(0, w[cell])));
        dy.push_back((int)r.in(0, std::max(0, h[cell])));
      }
    }
    float weight = 1.0f;
    if (r.chance(0.3)) weight = (float)r.pick(std::vector<double>{0.25, 0.5, 2.0, 3.0, 1.5});
    c.addNet(cells, dx, dy, weight);
  }
  if (o.connectAll && n >= 2) {
    // chain the cells that no net links to another cell
    std::vector<bool> linked(n, false);
    for (int k = 0; k < c.nbNets(); ++k) {
      bool multi = false;
      for (int j = 1; j < c.nbPinsNet(k); ++j) multi = multi || c.pinCell(k, j) != c.pinCell(k, 0);
      if (multi)
        for (int j = 0; j < c.nbPinsNet(k); ++j) linked[c.pinCell(k, j)] = true;
    }
    for (int i = 0; i < n; ++i) {
      if (linked[i]) continue;
      int other = (i + 1 + (int)r.in(0, n - 2)) % n;
      c.addNet({i, other}, {(int)r.in(0, std::max(0, w[i])), (int)r.in(0, std::max(0, w[other]))}, {(int)r.in(0, std::max(0, h[i])), (int)r.in(0, std::max(0, h[other]))});
      linked[i] = linked[other] = true;
    }
  }
  if (info) info->rowHeight = H;
  return c;
}

// C07: degenerate shapes at a given coordinate magnitude (coordinates up to about 2^magBits, cell areas below 2^31)
inline Circuit genShape(Rng &r, const std::string &shape, int magBits) {
  long long top = 1LL << std::max(6, magBits);
  long long H = std::max<long long>(1, std::min<long long>(top / 64, 1LL << 12));
  int nRows = shape == "singleRow" ? 1 : shape == "manyRows" ? (int)r.in(20, 40) : (int)r.in(2, 8);
  long long W = std::max<long long>(8 * H, top / 2);
  long long ox = r.chance(0.5) ? top - W - 1 : -top + 1;       // rows pushed against the magnitude limit
  long long oy = r.chance(0.5) ? top - nRows * H - 1 : -top + 1;
  if (magBits == 0) {
    ox = r.in(-20, 20);
    oy = r.in(-10, 10);
    W = r.in(8, 64);
    H = r.in(1, 4);
  }
  std::vector<Row> rows;
  for (int k = 0; k < nRows; ++k) {
    CellOrientation ro = (k % 2) ? CellOrientation::FS : CellOrientation::N;
    if (shape == "splitRows" && W >= 16 * H) {
      long long cut = ox + W / 2 - H + r.in(0, H);
      rows.emplace_back((int)ox, (int)cut, (int)(oy + k * H), (int)(oy + (k + 1) * H), ro);
      rows.emplace_back((int)(cut + r.in(0, 2 * H)), (int)(ox + W), (int)(oy + k * H), (int)(oy + (k + 1) * H), ro);
    } else {
      rows.emplace_back((int)ox, (int)(ox + W), (int)(oy + k * H), (int)(oy + (k + 1) * H), ro);
    }
  }
  long long maxW = std::min<long long>(W, ((1LL << 31) - 1) / (H * 6));   // area below 2^31 even for 6-row macros
  int nMov = shape == "singleCell" ? 1 : shape == "allFixedButOne" ? 1 : (int)r.in(2, 30);
  int nFix = shape == "zeroSizeTerminals" ? (int)r.in(2, 8) : shape == "allFixedButOne" ? (int)r.in(3, 12) : (int)r.in(0, 3);
  double util = shape == "infeasibleDensity" ? r.real(1.1, 2.0) : r.real(0.1, 0.9);
  long long avgW = std::max<long long>(1, (long long)(util * (double)W * nRows / nMov));
  int n = nMov + nFix;
  std::vector<int> w(n), h(n), x(n), y(n);
  std::vector<bool> fixed(n, false), obs(n, true);
  for (int i = 0; i < n; ++i) {
    if (i >= nMov) {
      fixed[i] = true;
      if (shape == "zeroSizeTerminals") {
        w[i] = h[i] = 0;
      } else {
        w[i] = (int)std::min<long long>(maxW, std::max<long long>(1, r.in(1, 4) * H));
        h[i] = (int)(r.in(1, 3) * H);
      }
      x[i] = (int)(ox + r.in(-2 * H, W));
      y[i] = (int)(oy + r.in(-2, nRows) * H);
      obs[i] = r.chance(0.7);
      continue;
    }
    long long ww = std::max<long long>(1, (long long)(avgW * r.real(0.3, 1.7)));
    if (shape == "wideCells" && r.chance(0.3)) ww = W - r.in(0, 2);
    ww = std::min(ww, maxW);
    int rowsHigh = (shape == "macros" && nRows >= 2 && r.chance(0.4)) ? (int)r.in(2, std::min(6, nRows)) : 1;
    w[i] = (int)ww;
    h[i] = (int)(rowsHigh * H);
    x[i] = (int)(r.chance(0.1) ? (r.chance(0.5) ? -top + 1 : top - ww) : ox + r.in(0, W));
    y[i] = (int)(r.chance(0.1) ? (r.chance(0.5) ? -top + 1 : top - h[i]) : oy + r.in(0, nRows) * H);
  }
  Circuit c(n);
  c.setCellWidth(w);
  c.setCellHeight(h);
  c.setCellX(x);
  c.setCellY(y);
  c.setCellIsFixed(fixed);
  c.setCellIsObstruction(obs);
  c.setRows(rows);
  if (shape != "noNets") {
    int nNets = (int)r.in(1, 2 * n);
    for (int k = 0; k < nNets; ++k) {
      int deg = shape == "degree1Nets" ? 1 : (int)r.in(2, 6);
      std::vector<int> cells, dx, dy;
      for (int j = 0; j < deg; ++j) {
        int cell = shape == "allPinsOneCell" ? 0 : (int)r.in(0, n - 1);
        cells.push_back(cell);
        dx.push_back((int)r.in(0, std::max(0, w[cell])));
        dy.push_back((int)r.in(0, std::max(0, h[cell])));
      }
      c.addNet(cells, dx, dy, (float)r.pick(std::vector<double>{1.0, 1.0, 0.5, 2.0}));
    }
  }
  return c;
}

struct ParamOpts {
  bool defaultsOnly = false;
  bool reorder = true;       // allow reorderingMaxNbCells >= 2
  bool wideOrdering = true;  // orderingWidth over the whole accepted range [-1,2]
  bool smallGlobal = true;   // small maxNbSteps in half of the runs
  bool reorderFocus = false; // always run the row-reordering pass over several rows
};

inline ColoquinteParameters genParams(Rng &r, const ParamOpts &o) {
  int effort = (int)r.in(1, 9);
  // seeds: the special values callers use (-1 = the default, 0, 1) as often as arbitrary ones
  int sd = (int)r.in(-1, 1000);
  if (sd % 3 == 0) sd = (sd / 3) % 3 - 1;
  ColoquinteParameters p(effort, sd);
  if (o.defaultsOnly || r.chance(0.25)) return p;
  // legalization: on and inside the bounds of the check
  {
    std::vector<double> ow = {0.0, 0.2, 0.5, 1.0, 0.2, 0.7};
    if (o.wideOrdering) {
      ow.push_back(-1.0);
      ow.push_back(2.0);
      ow.push_back(1.5);
      ow.push_back(-0.5);
    }
    p.legalization.orderingWidth = r.pick(ow);
    p.legalization.orderingY = r.pick(std::vector<double>{0.0, 0.0, 0.2, -0.2, 0.05, -0.1});
    p.legalization.orderingHeight = r.pick(std::vector<double>{-1.0, 0.0, 1.0, -3.0, 0.5});
  }
  // detailed
  {
    p.detailed.nbPasses = (int)r.in(0, 4);
    p.detailed.localSearchNbNeighbours = (int)r.in(0, 16);
    p.detailed.localSearchNbRows = (int)r.in(0, 4);
    p.detailed.shiftNbRows = (int)r.in(1, 5);
    p.detailed.shiftMaxNbCells = r.chance(0.2) ? (int)r.in(0, 2) : (int)r.in(2, 120);
    if (o.reorder) {
      p.detailed.reorderingNbRows = (int)r.in(1, 3);
      p.detailed.reorderingMaxNbCells = r.chance(0.4) ? (int)r.in(0, 1) : (int)r.in(2, 5);
    }
    if (o.reorderFocus) {
      p.detailed.nbPasses = (int)r.in(1, 3);
      p.detailed.reorderingNbRows = (int)r.in(2, 3);
      p.detailed.reorderingMaxNbCells = (int)r.in(2, 6);
    }
  }
  // global, inside the numerically moderate box of C06
  {
    auto &g = p.global;
    if (o.smallGlobal && r.chance(0.5)) g.maxNbSteps = (int)r.in(1, 6);
    else g.maxNbSteps = (int)r.in(7, 60);
    g.nbInitialSteps = (int)r.in(0, std::min(2, g.maxNbSteps - 1));
    g.nbStepsBeforeRoughLegalization = (int)r.in(1, 3);
    g.gapTolerance = r.pick(std::vector<double>{0.0, 0.026, 0.13, 0.5, 1.0});
    g.distanceTolerance = r.pick(std::vector<double>{0.0, 2.0, 5.0});
    g.penaltyUpdateDistance = r.pick(std::vector<double>{0.5, 10.0, 100.0});
    g.penaltyUpdateBackoff = r.pick(std::vector<double>{1.0, 2.0, 4.0});
    g.exportBlending = r.pick(std::vector<double>{-0.5, 0.0, 0.25, 0.5, 0.99, 1.0, 1.5});
    g.noise = r.pick(std::vector<double>{0.0, 1.0e-4, 0.1, 2.0});
    g.continuousModel.netModel = r.pick(std::vector<NetModelOption>{NetModelOption::BoundToBound, NetModelOption::Star,
                                                                    NetModelOption::Clique, NetModelOption::LightStar});
    g.continuousModel.approximationDistance = r.pick(std::vector<double>{0.1, 0.5, 2.0, 10.0, 1000.0});
    g.continuousModel.approximationDistanceUpdateFactor = r.pick(std::vector<double>{0.8, 1.0, 1.2});
    g.continuousModel.maxNbConjugateGradientSteps = (int)r.pick(std::vector<int>{1, 5, 100, 1000});
    g.continuousModel.conjugateGradientErrorTolerance = r.pick(std::vector<double>{1.0e-6, 1.0e-4, 1.0e-2, 1.0});
    auto &rl = g.roughLegalization;
    rl.costModel = r.pick(std::vector<LegalizationModel>{LegalizationModel::L1, LegalizationModel::L2, LegalizationModel::LInf,
                                                         LegalizationModel::L1Squared, LegalizationModel::L2Squared,
                                                         LegalizationModel::LInfSquared});
    rl.nbSteps = (int)r.in(0, 2);
    rl.binSize = r.pick(std::vector<double>{1.0, 2.0, 5.0, 10.0, 25.0});
    rl.lineReoptSize = (int)r.pick(std::vector<int>{1, 2, 3, 8, 64});
    rl.lineReoptOverlap = rl.lineReoptSize > 1 ? (int)r.in(1, rl.lineReoptSize - 1) : (int)r.in(1, 3);
    rl.diagReoptSize = (int)r.pick(std::vector<int>{1, 2, 3, 8, 64});
    rl.diagReoptOverlap = rl.diagReoptSize > 1 ? (int)r.in(1, rl.diagReoptSize - 1) : (int)r.in(1, 3);
    rl.squareReoptSize = (int)r.in(1, 8);
    rl.squareReoptOverlap = rl.squareReoptSize > 1 ? (int)r.in(1, rl.squareReoptSize - 1) : (int)r.in(1, 3);
    rl.unidimensionalTransport = r.chance(0.5);
    if (rl.lineReoptSize < 2 && rl.diagReoptSize < 2 && rl.squareReoptSize < 2 &&
        (!rl.unidimensionalTransport || rl.costModel != LegalizationModel::L1)) {
      rl.squareReoptSize = 2;
      rl.squareReoptOverlap = 1;
    }
    rl.quadraticPenalty = r.pick(std::vector<double>{0.0, 0.001, 0.1, 1.0});
    rl.sideMargin = r.pick(std::vector<double>{0.0, 0.5, 0.9, 1.5});
    rl.coarseningLimit = r.pick(std::vector<double>{1.0, 10.0, 100.0});
    rl.targetBlending = r.pick(std::vector<double>{-0.1, 0.0, 0.5, 0.89});
    auto &pe = g.penalty;
    pe.cutoffDistance = r.pick(std::vector<double>{0.1, 1.0, 40.0, 1000.0});
    pe.cutoffDistanceUpdateFactor = r.pick(std::vector<double>{0.8, 1.0, 1.2});
    pe.areaExponent = r.pick(std::vector<double>{0.49, 0.5, 1.0, 1.01});
    pe.initialValue = r.pick(std::vector<double>{0.001, 0.03, 1.0});
    pe.updateFactor = r.pick(std::vector<double>{1.01, 1.07, 1.23, 1.9});
    pe.targetBlending = r.pick(std::vector<double>{0.11, 0.5, 1.0, 1.1});
  }
  // C06/C07 domain: the numerical distances stay >= 0.1 over the whole run, i.e. also after maxNbSteps applications of
  // their per-step update factors (a distance shrunk to 1e-6 by a factor 0.8 is the excluded single-precision limit)
  {
    auto &g = p.global;
    double steps = g.maxNbSteps;
    if (g.continuousModel.approximationDistanceUpdateFactor < 1.0 &&
        g.continuousModel.approximationDistance * std::pow(g.continuousModel.approximationDistanceUpdateFactor, steps) < 0.1)
      g.continuousModel.approximationDistanceUpdateFactor = 1.0;
    if (g.penalty.cutoffDistanceUpdateFactor < 1.0 &&
        g.penalty.cutoffDistance * std::pow(g.penalty.cutoffDistanceUpdateFactor, steps) < 0.1)
      g.penalty.cutoffDistanceUpdateFactor = 1.0;
  }
  p.check();  // the generator must stay inside the accepted set; a throw here is a harness error
  return p;
}

inline vj::Value paramsToJson(const ColoquinteParameters &p) {
  vj::Value v = vj::Value::object();
  auto m = [](double d) { return (long long)std::llround(d * 1000.0); };
  v.set("seed", p.seed);
  v.set("ow", m(p.legalization.orderingWidth)).set("oy", m(p.legalization.orderingY)).set("oh", m(p.legalization.orderingHeight));
  v.set("passes", p.detailed.nbPasses).set("lsn", p.detailed.localSearchNbNeighbours).set("lsr", p.detailed.localSearchNbRows);
  v.set("shr", p.detailed.shiftNbRows).set("shc", p.detailed.shiftMaxNbCells);
  v.set("ror", p.detailed.reorderingNbRows).set("roc", p.detailed.reorderingMaxNbCells);
  v.set("steps", p.global.maxNbSteps).set("init", p.global.nbInitialSteps).set("lbs", p.global.nbStepsBeforeRoughLegalization);
  v.set("blend", m(p.global.exportBlending)).set("margin", m(p.global.roughLegalization.sideMargin));
  v.set("model", (int)p.global.continuousModel.netModel).set("cost", (int)p.global.roughLegalization.costModel);
  v.set("bin", m(p.global.roughLegalization.binSize));
  return v;
}

}  // namespace vg
