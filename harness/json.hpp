// Minimal JSON value (parse + dump) for the verification harnesses. Integers are kept exact (long long).
#pragma once
#include <cstdio>
#include <cstdlib>
#include <cstring>
#include <map>
#include <memory>
#include <sstream>
#include <stdexcept>
#include <string>
#include <vector>

namespace vj {

struct Value;
using Array = std::vector<Value>;
using Object = std::vector<std::pair<std::string, Value>>;

struct Value {
  enum Kind { Null, Bool, Int, Dbl, Str, Arr, Obj } kind = Null;
  bool b = false;
  long long i = 0;
  double d = 0;
  std::string s;
  std::shared_ptr<Array> a;
  std::shared_ptr<Object> o;

  Value() {}
  Value(bool v) : kind(Bool), b(v) {}
  Value(int v) : kind(Int), i(v) {}
  Value(long v) : kind(Int), i(v) {}
  Value(long long v) : kind(Int), i(v) {}
  Value(unsigned long v) : kind(Int), i((long long)v) {}
  Value(double v) : kind(Dbl), d(v) {}
  Value(const char *v) : kind(Str), s(v) {}
  Value(const std::string &v) : kind(Str), s(v) {}
  static Value array() {
    Value v;
    v.kind = Arr;
    v.a = std::make_shared<Array>();
    return v;
  }
  static Value object() {
    Value v;
    v.kind = Obj;
    v.o = std::make_shared<Object>();
    return v;
  }
  template <class T>
  static Value from(const std::vector<T> &vec) {
    Value v = array();
    for (const auto &e : vec) v.a->push_back(Value(e));
    return v;
  }
  static Value fromBools(const std::vector<bool> &vec) {
    Value v = array();
    for (bool e : vec) v.a->push_back(Value((bool)e));
    return v;
  }
  Value &push(const Value &v) {
    if (kind != Arr) *this = array();
    a->push_back(v);
    return *this;
  }
  Value &set(const std::string &k, const Value &v) {
    if (kind != Obj) *this = object();
    for (auto &p : *o)
      if (p.first == k) {
        p.second = v;
        return *this;
      }
    o->emplace_back(k, v);
    return *this;
  }
  bool has(const std::string &k) const {
    if (kind != Obj) return false;
    for (auto &p : *o)
      if (p.first == k) return true;
    return false;
  }
  const Value &operator[](const std::string &k) const {
    static Value nul;
    if (kind != Obj) return nul;
    for (auto &p : *o)
      if (p.first == k) return p.second;
    return nul;
  }
  const Value &operator[](size_t k) const { return a->at(k); }
  size_t size() const { return kind == Arr ? a->size() : kind == Obj ? o->size() : 0; }
  long long asInt() const { return kind == Int ? i : kind == Dbl ? (long long)d : kind == Bool ? b : 0; }
  double asDbl() const { return kind == Dbl ? d : (double)i; }
  bool asBool() const { return kind == Bool ? b : i != 0; }
  const std::string &asStr() const { return s; }
  std::vector<int> ints() const {
    std::vector<int> r;
    if (kind == Arr)
      for (auto &e : *a) r.push_back((int)e.asInt());
    return r;
  }
  std::vector<long long> longs() const {
    std::vector<long long> r;
    if (kind == Arr)
      for (auto &e : *a) r.push_back(e.asInt());
    return r;
  }

  void dump(std::string &out) const {
    switch (kind) {
      case Null: out += "null"; break;
      case Bool: out += b ? "true" : "false"; break;
      case Int: out += std::to_string(i); break;
      case Dbl: {
        char buf[64];
        snprintf(buf, sizeof buf, "%.17g", d);
        out += buf;
        break;
      }
      case Str: {
        out += '"';
        for (char c : s) {
          if (c == '"' || c == '\\') {
            out += '\\';
            out += c;
          } else if (c == '\n') {
            out += "\\n";
          } else if ((unsigned char)c < 0x20) {
            out += ' ';
          } else {
            out += c;
          }
        }
        out += '"';
        break;
      }
      case Arr: {
        out += '[';
        bool first = true;
        for (auto &e : *a) {
          if (!first) out += ',';
          first = false;
          e.dump(out);
        }
        out += ']';
        break;
      }
      case Obj: {
        out += '{';
        bool first = true;
        for (auto &p : *o) {
          if (!first) out += ',';
          first = false;
          out += '"';
          out += p.first;
          out += "\":";
          p.second.dump(out);
        }
        out += '}';
        break;
      }
    }
  }
  std::string str() const {
    std::string r;
    dump(r);
    return r;
  }
};

struct Parser {
  const char *p;
  const char *end;
  explicit Parser(const std::string &s) : p(s.data()), end(s.data() + s.size()) {}
  void ws() {
    while (p < end && (*p == ' ' || *p == '\t' || *p == '\n' || *p == '\r')) ++p;
  }
  Value parse() {
    ws();
    if (p >= end) throw std::runtime_error("json: unexpected end");
    char c = *p;
    if (c == '{') {
      ++p;
      Value v = Value::object();
      ws();
      if (*p == '}') {
        ++p;
        return v;
      }
      while (true) {
        ws();
        Value k = parse();
        ws();
        if (*p != ':') throw std::runtime_error("json: expected :");
        ++p;
        Value x = parse();
        v.o->emplace_back(k.s, x);
        ws();
        if (*p == ',') {
          ++p;
          continue;
        }
        if (*p == '}') {
          ++p;
          return v;
        }
        throw std::runtime_error("json: expected , or }");
      }
    }
    if (c == '[') {
      ++p;
      Value v = Value::array();
      ws();
      if (*p == ']') {
        ++p;
        return v;
      }
      while (true) {
        v.a->push_back(parse());
        ws();
        if (*p == ',') {
          ++p;
          continue;
        }
        if (*p == ']') {
          ++p;
          return v;
        }
        throw std::runtime_error("json: expected , or ]");
      }
    }
    if (c == '"') {
      ++p;
      std::string s;
      while (p < end && *p != '"') {
        if (*p == '\\' && p + 1 < end) {
          ++p;
          if (*p == 'n')
            s += '\n';
          else
            s += *p;
        } else {
          s += *p;
        }
        ++p;
      }
      ++p;
      return Value(s);
    }
    if (!strncmp(p, "true", 4)) {
      p += 4;
      return Value(true);
    }
    if (!strncmp(p, "false", 5)) {
      p += 5;
      return Value(false);
    }
    if (!strncmp(p, "null", 4)) {
      p += 4;
      return Value();
    }
    const char *q = p;
    bool isd = false;
    if (*q == '-' || *q == '+') ++q;
    while (q < end && ((*q >= '0' && *q <= '9') || *q == '.' || *q == 'e' || *q == 'E' || *q == '-' || *q == '+')) {
      if (*q == '.' || *q == 'e' || *q == 'E') isd = true;
      ++q;
    }
    std::string num(p, q);
    if (num.empty()) throw std::runtime_error(std::string("json: bad token at ") + std::string(p, std::min<size_t>(20, end - p)));
    p = q;
    if (isd) return Value(strtod(num.c_str(), nullptr));
    return Value(strtoll(num.c_str(), nullptr, 10));
  }
};

inline Value parse(const std::string &s) { return Parser(s).parse(); }

// TLC prints PrintT(ToJson(x)) as a TLA+ string literal: "{\"a\":1}".  Accept both raw JSON and that form.
inline bool parseLine(const std::string &line, Value &out) {
  size_t b = 0;
  while (b < line.size() && (line[b] == ' ' || line[b] == '\t')) ++b;
  if (b >= line.size()) return false;
  if (line[b] == '{' || line[b] == '[') {
    out = parse(line.substr(b));
    return true;
  }
  if (line[b] == '"' && b + 1 < line.size() && (line[b + 1] == '{' || line[b + 1] == '[')) {
    Value s = parse(line.substr(b));
    out = parse(s.s);
    return true;
  }
  return false;
}

}  // namespace vj
