// Projection of the implementation's objects onto the abstract state of the TLA+ specifications (and back).
#pragma once
#include <cstdint>
#include <cstring>
#include <string>
#include <vector>

#include "coloquinte.hpp"
#include "json.hpp"

namespace vp {
using namespace coloquinte;
using vj::Value;

inline const char *orientName(CellOrientation o) {
  switch ((int)o) {
    case 0: return "N";
    case 1: return "S";
    case 2: return "W";
    case 3: return "E";
    case 4: return "FN";
    case 5: return "FS";
    case 6: return "FW";
    case 7: return "FE";
    case 8: return "INVALID";
    case 9: return "UNKNOWN";
    default: return "GARBAGE";
  }
}
inline CellOrientation orientFrom(const std::string &s) {
  static const char *names[] = {"N", "S", "W", "E", "FN", "FS", "FW", "FE", "INVALID", "UNKNOWN"};
  for (int i = 0; i < 10; ++i)
    if (s == names[i]) return (CellOrientation)i;
  throw std::runtime_error("bad orientation " + s);
}
inline const char *polName(CellRowPolarity p) {
  switch (p) {
    case CellRowPolarity::ANY: return "ANY";
    case CellRowPolarity::SAME: return "SAME";
    case CellRowPolarity::OPPOSITE: return "OPPOSITE";
    case CellRowPolarity::NW: return "NW";
    case CellRowPolarity::SE: return "SE";
    default: return "GARBAGE";
  }
}
inline CellRowPolarity polFrom(const std::string &s) {
  if (s == "ANY") return CellRowPolarity::ANY;
  if (s == "SAME") return CellRowPolarity::SAME;
  if (s == "OPPOSITE") return CellRowPolarity::OPPOSITE;
  if (s == "NW") return CellRowPolarity::NW;
  if (s == "SE") return CellRowPolarity::SE;
  throw std::runtime_error("bad polarity " + s);
}
inline int floatBits(float f) {
  int32_t i;
  std::memcpy(&i, &f, 4);
  return i;
}
inline float bitsFloat(int i) {
  float f;
  int32_t j = i;
  std::memcpy(&f, &j, 4);
  return f;
}

// Full abstract circuit state. Cell indices in pins are 1-based (TLA+ sequences).
inline Value circuitToJson(const Circuit &c) {
  Value cells = Value::array();
  for (int i = 0; i < c.nbCells(); ++i) {
    Value e = Value::object();
    e.set("w", c.cellWidth_[i]).set("h", c.cellHeight_[i]).set("f", (bool)c.cellIsFixed_[i]);
    e.set("ob", (bool)c.cellIsObstruction_[i]).set("p", polName(c.cellRowPolarity_[i]));
    e.set("x", c.cellX_[i]).set("y", c.cellY_[i]).set("o", orientName(c.cellOrientation_[i]));
    cells.push(e);
  }
  Value nets = Value::array();
  for (int n = 0; n + 1 < (int)c.netLimits_.size(); ++n) {
    Value pins = Value::array();
    for (int k = c.netLimits_[n]; k < c.netLimits_[n + 1]; ++k) {
      Value p = Value::object();
      p.set("c", c.pinCells_[k] + 1).set("dx", c.pinXOffsets_[k]).set("dy", c.pinYOffsets_[k]);
      pins.push(p);
    }
    Value e = Value::object();
    e.set("wt", n < (int)c.netWeights_.size() ? floatBits(c.netWeights_[n]) : -1).set("pins", pins);
    nets.push(e);
  }
  Value rows = Value::array();
  for (const Row &r : c.rows_) {
    Value e = Value::object();
    e.set("x0", r.minX).set("x1", r.maxX).set("y0", r.minY).set("y1", r.maxY).set("o", orientName(r.orientation));
    rows.push(e);
  }
  Value v = Value::object();
  v.set("cells", cells).set("nets", nets).set("rows", rows);
  return v;
}

// Only the placement (positions + orientations), for compact events.
inline Value placementToJson(const Circuit &c) {
  Value xs = Value::array(), ys = Value::array(), os = Value::array();
  for (int i = 0; i < c.nbCells(); ++i) {
    xs.push(c.cellX_[i]);
    ys.push(c.cellY_[i]);
    os.push(orientName(c.cellOrientation_[i]));
  }
  Value v = Value::object();
  v.set("x", xs).set("y", ys).set("o", os);
  return v;
}

inline Circuit circuitFromJson(const Value &v) {
  const Value &cells = v["cells"];
  int n = (int)cells.size();
  Circuit c(n);
  std::vector<int> w(n), h(n), x(n), y(n);
  std::vector<bool> f(n), ob(n);
  std::vector<CellRowPolarity> pol(n);
  std::vector<CellOrientation> o(n);
  for (int i = 0; i < n; ++i) {
    const Value &e = cells[i];
    w[i] = (int)e["w"].asInt();
    h[i] = (int)e["h"].asInt();
    x[i] = (int)e["x"].asInt();
    y[i] = (int)e["y"].asInt();
    f[i] = e["f"].asBool();
    ob[i] = e.has("ob") ? e["ob"].asBool() : true;
    pol[i] = e.has("p") ? polFrom(e["p"].asStr()) : CellRowPolarity::ANY;
    o[i] = e.has("o") ? orientFrom(e["o"].asStr()) : CellOrientation::N;
  }
  c.setCellWidth(w);
  c.setCellHeight(h);
  c.setCellX(x);
  c.setCellY(y);
  c.setCellIsFixed(f);
  c.setCellIsObstruction(ob);
  c.setCellRowPolarity(pol);
  c.setCellOrientation(o);
  const Value &nets = v["nets"];
  // Filled directly (not through addNet) so that empty nets can be represented too.
  for (size_t k = 0; k < nets.size(); ++k) {
    const Value &pins = nets[k]["pins"];
    for (size_t j = 0; j < pins.size(); ++j) {
      c.pinCells_.push_back((int)pins[j]["c"].asInt() - 1);
      c.pinXOffsets_.push_back((int)pins[j]["dx"].asInt());
      c.pinYOffsets_.push_back((int)pins[j]["dy"].asInt());
    }
    c.netLimits_.push_back((int)c.pinCells_.size());
    c.netWeights_.push_back(nets[k].has("wt") ? bitsFloat((int)nets[k]["wt"].asInt()) : 1.0f);
  }
  std::vector<Row> rows;
  const Value &rs = v["rows"];
  for (size_t k = 0; k < rs.size(); ++k) {
    rows.emplace_back((int)rs[k]["x0"].asInt(), (int)rs[k]["x1"].asInt(), (int)rs[k]["y0"].asInt(),
                      (int)rs[k]["y1"].asInt(), rs[k].has("o") ? orientFrom(rs[k]["o"].asStr()) : CellOrientation::N);
  }
  c.setRows(rows);
  return c;
}

// Wide non-negative/negative integers as base-2^15 digit lists (little endian) with a sign, for TLC's 32-bit ints.
inline Value bigToJson(long long v) {
  Value d = Value::array();
  bool neg = v < 0;
  unsigned long long u = neg ? (unsigned long long)(-(v + 1)) + 1ULL : (unsigned long long)v;
  while (u) {
    d.push((int)(u & 32767));
    u >>= 15;
  }
  Value r = Value::object();
  r.set("neg", neg).set("d", d);
  return r;
}

}  // namespace vp
