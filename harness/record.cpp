// Code -> spec recorder for the placement entry points: drives Circuit::placeGlobal / legalize / placeDetailed on
// generated circuits and records one event per call begin, callback, return, exception or abnormal fate, each
// with the full projected circuit.  Usage:
//   record out=<trace> scen=<leg|det|glob|full> seed=<n> first=<k> runs=<n> [key=value generator switches]
//   record out=<trace> replay=<file with one Reset line> scen=...      (re-run one recorded instance)
#include <cstring>
#include <functional>
#include <iostream>
#include <map>
#include <sstream>

#include "gen.hpp"
#include "place_detailed/incr_net_model.hpp"
#include "place_global/density_grid.hpp"
#include "place_detailed/place_detailed.hpp"
#include "place_detailed/legalizer.hpp"
#include "project.hpp"
#include "trace.hpp"

using namespace coloquinte;
using vj::Value;

static std::map<std::string, std::string> g_args;
static long long argi(const char *k, long long d) { return g_args.count(k) ? atoll(g_args[k].c_str()) : d; }
static std::string args(const char *k, const char *d) { return g_args.count(k) ? g_args[k] : d; }

#include "calls.hpp"

static void scenario(const std::string &scen, int run, Circuit base, const ColoquinteParameters &p, bool withCb) {
  Ctx cx{run, withCb, false};
  if (scen == "leg") {
    Circuit a = base;
    if (call(cx, a, "A", "legalize", p)) call(cx, a, "A", "legalize", p);
  } else if (scen == "legc") {
    // C11: a directly constructed legal single-row placement (dense, exactly full segments included), legalized once
    Circuit a = base;
    vg::Rng r((uint64_t)run * 991 + 3);
    std::vector<Row> segs = a.computeRows();
    std::vector<int> cursor;
    for (const Row &sg : segs) cursor.push_back(sg.minX);
    int H = a.rowHeight();
    std::vector<int> order;
    for (int i = 0; i < a.nbCells(); ++i)
      if (!a.isFixed(i)) order.push_back(i);
    std::shuffle(order.begin(), order.end(), r.g);
    double pGap = r.real(0, 1) < 0.5 ? 0.0 : r.real(0, 0.6);
    for (int c : order) {
      bool placed = false;
      std::vector<int> cand;
      for (size_t k = 0; k < segs.size(); ++k) cand.push_back((int)k);
      std::shuffle(cand.begin(), cand.end(), r.g);
      for (int k : cand) {
        CellOrientation o = vg::expectedOrientationInRow(a.cellRowPolarity_[c], segs[k].orientation);
        if (o == CellOrientation::INVALID) continue;
        int remaining = segs[k].maxX - cursor[k];
        int w = a.cellWidth_[c];
        if (remaining <= 0) continue;
        if (w > remaining || r.chance(0.15)) w = remaining;  // exactly fill what is left of the segment
        int gap = r.chance(pGap) ? (int)r.in(0, std::max(0, remaining - w)) : 0;
        a.cellWidth_[c] = w;
        a.cellHeight_[c] = H;
        if (o != CellOrientation::UNKNOWN) a.cellOrientation_[c] = o;
        else if (isTurn(a.cellOrientation_[c])) {
          // an unrestricted cell may stay turned: its unrotated size is then (H, w) for a placed footprint of w x H
          if (argi("turned", 1)) {
            a.cellWidth_[c] = H;
            a.cellHeight_[c] = w;
          } else {
            a.cellOrientation_[c] = CellOrientation::N;
          }
        }
        a.cellX_[c] = cursor[k] + gap;
        a.cellY_[c] = segs[k].minY;
        cursor[k] += gap + w;
        placed = true;
        break;
      }
      if (!placed) {
        // no room: take the cell out of the problem (fixed, not an obstruction)
        a.cellIsFixed_[c] = true;
        a.cellIsObstruction_[c] = false;
      }
    }
    Value rs = vt::ev("Rebase");
    rs.set("run", run).set("circ", vp::circuitToJson(a)).set("wl", a.hpwl());
    vt::emit(rs);
    if (call(cx, a, "A", "legalize", p)) call(cx, a, "A", "legalize", p);
  } else if (scen == "passes") {
    // C02 / C05: the optimiser passes of detailed placement driven directly, in random order with random window arguments
    Circuit a = base;
    Ctx quiet{run, false, false};
    if (!call(quiet, a, "A", "legalize", p)) return;
    vg::Rng r((uint64_t)run * 577 + 29);
    try {
      DetailedPlacer pl(a, p);
      int nPasses = (int)r.in(3, 10);
      for (int k = 0; k < nPasses; ++k) {
        int kind = (int)r.in(0, 5);
        std::string op;
        int a1 = 0, a2 = 0;
        if (kind == 0) { op = "swaps"; a1 = (int)r.in(0, 4); a2 = (int)r.in(0, 16); pl.runSwaps(a1, a2); }
        else if (kind == 1) { op = "inserts"; a1 = (int)r.in(0, 4); a2 = (int)r.in(0, 16); pl.runInserts(a1, a2); }
        else if (kind == 2) { op = "shifts"; a1 = (int)r.in(1, 5); a2 = (int)r.pick(std::vector<int>{2, 3, 10, 50, 120}); pl.runShifts(a1, a2); }
        else if (kind == 3) { op = "reordering"; a1 = (int)r.in(1, 3); a2 = (int)r.in(1, 5); pl.runReordering(a1, a2); }
        else if (kind == 4) { op = "swapsOneRow"; a1 = 0; a2 = (int)r.in(0, 8); pl.runSwapsOneRow(a1, a2); }
        else { op = "insertsOneRow"; a1 = 0; a2 = (int)r.in(0, 8); pl.runInsertsOneRow(a1, a2); }
        pl.check();
        pl.exportPlacement(a);
        Value e = vt::ev("Pass");
        e.set("run", run).set("obj", "A").set("op", op).set("a1", a1).set("a2", a2).set("k", k);
        e.set("circ", vp::circuitToJson(a)).set("wl", a.hpwl()).set("value", pl.value());
        vt::emit(e);
      }
    } catch (std::exception &ex) {
      Value e = vt::ev("PassThrow");
      e.set("run", run).set("obj", "A").set("what", ex.what());
      vt::emit(e);
    }
  } else if (scen == "det") {
    // reference: legalization alone on a copy, then detailed placement on another copy
    Circuit a = base;
    Ctx quiet{run, false, false};
    call(quiet, a, "A", "legalize", p);
    Circuit b = base;
    call(cx, b, "B", "detailed", p);
  } else if (scen == "incr") {
    // C09: incremental 1-D wirelength models (all cells / a subset) under random position updates
    Circuit a = base;
    vg::Rng r((uint64_t)run * 77 + 5);
    for (int axis = 0; axis < 2; ++axis) {
      std::vector<int> sub;
      bool all = r.chance(0.4);
      for (int i = 0; i < a.nbCells(); ++i)
        if (all || r.chance(0.5)) sub.push_back(i);
      if (!all) std::shuffle(sub.begin(), sub.end(), r.g);
      if (sub.empty()) sub.push_back(0);
      IncrNetModel m = axis == 0 ? IncrNetModel::xTopology(a, sub) : IncrNetModel::yTopology(a, sub);
      auto log = [&](int step) {
        Value e = vt::ev("Incr");
        Value sv = Value::array();
        for (int c : sub) sv.push(c + 1);
        e.set("run", run).set("axis", axis == 0 ? "x" : "y").set("sub", sv).set("step", step).set("val", m.value());
        e.set("circ", vp::circuitToJson(a));
        vt::emit(e);
      };
      log(0);
      int nUpd = (int)r.in(3, 12);
      Rectangle area = a.computePlacementArea();
      for (int k = 0; k < nUpd; ++k) {
        int j = (int)r.in(0, (int)sub.size() - 1);
        int lo = axis == 0 ? area.minX : area.minY, hi = axis == 0 ? area.maxX : area.maxY;
        int p = r.chance(0.2) ? (int)r.in(lo - (hi - lo), hi + (hi - lo)) : (int)r.in(lo, hi);
        if (r.chance(0.15)) p = m.cellPos(j);  // no-op update
        m.updateCellPos(j, p);
        (axis == 0 ? a.cellX_ : a.cellY_)[sub[j]] = p;
        log(k + 1);
      }
    }
    // The same circuit magnified by an integer K chosen so that net extents approach the int range: wirelength is homogeneous,
    // hpwl(K c) = K hpwl(c) exactly, also where the half perimeter of one net no longer fits 32 bits.
    {
      // K as large as the int range allows: every coordinate, size and pin position of the magnified circuit fits an int and the
      // extent of every net along each axis stays below 2^31, while the half perimeter of the widest net may exceed 2^31
      long long maxAbs = 1, maxExt = 1;
      for (int i = 0; i < base.nbCells(); ++i) {
        maxAbs = std::max<long long>(maxAbs, std::llabs((long long)base.cellX_[i]) + base.cellWidth_[i] + base.cellHeight_[i]);
        maxAbs = std::max<long long>(maxAbs, std::llabs((long long)base.cellY_[i]) + base.cellWidth_[i] + base.cellHeight_[i]);
      }
      for (int v : base.pinXOffsets_) maxAbs = std::max<long long>(maxAbs, std::llabs((long long)v));
      for (int v : base.pinYOffsets_) maxAbs = std::max<long long>(maxAbs, std::llabs((long long)v));
      for (int n = 0; n < base.nbNets(); ++n) {
        long long x0 = 0, x1 = 0, y0 = 0, y1 = 0;
        for (int j = 0; j < base.nbPinsNet(n); ++j) {
          int cell = base.pinCell(n, j);
          long long px = (long long)base.x(cell) + base.pinXOffset(n, j), py = (long long)base.y(cell) + base.pinYOffset(n, j);
          maxAbs = std::max(maxAbs, std::max(std::llabs(px), std::llabs(py)));
          if (j == 0) { x0 = x1 = px; y0 = y1 = py; }
          x0 = std::min(x0, px); x1 = std::max(x1, px); y0 = std::min(y0, py); y1 = std::max(y1, py);
        }
        maxExt = std::max(maxExt, std::max(x1 - x0, y1 - y0));
      }
      long long K = std::min(((1LL << 31) - 1) / (maxAbs + 1), ((1LL << 31) - 1) / maxExt);
      if (K >= 2) {
        Circuit big = base;
        for (int i = 0; i < big.nbCells(); ++i) {
          big.cellX_[i] = (int)(big.cellX_[i] * K);
          big.cellY_[i] = (int)(big.cellY_[i] * K);
          big.cellWidth_[i] = (int)(big.cellWidth_[i] * K);
          big.cellHeight_[i] = (int)(big.cellHeight_[i] * K);
        }
        for (int &v : big.pinXOffsets_) v = (int)(v * K);
        for (int &v : big.pinYOffsets_) v = (int)(v * K);
        long long wl = big.hpwl();
        std::vector<int> allCells;
        for (int i = 0; i < big.nbCells(); ++i) allCells.push_back(i);
        long long vx = IncrNetModel::xTopology(big, allCells).value(), vy = IncrNetModel::yTopology(big, allCells).value();
        Value e = vt::ev("HpwlScale");
        e.set("run", run).set("K", K).set("circ", vp::circuitToJson(base));
        e.set("q", wl / K).set("r", wl % K).set("qx", vx / K).set("rx", vx % K).set("qy", vy / K).set("ry", vy % K);
        vt::emit(e);
      }
    }
  } else if (scen == "free") {
    // C15: free space of every row of the circuit against its fixed cells plus random extra obstacles
    vg::Rng r((uint64_t)run * 131 + 7);
    Rectangle area = base.computePlacementArea();
    int H = base.rowHeight();
    std::vector<Rectangle> extra;
    int ne = (int)r.in(0, 3);
    for (int k = 0; k < ne; ++k) {
      int x0 = (int)r.in(area.minX - 3 * H, area.maxX + H), y0 = (int)r.in(area.minY - 2 * H, area.maxY + H);
      extra.emplace_back(x0, x0 + (int)r.in(0, std::max(1, area.width() / 2)), y0, y0 + (int)r.in(0, 3 * H));
    }
    std::vector<Row> all = base.computeRows(extra);
    Value obs = Value::array();
    auto addRect = [&](Rectangle q) {
      obs.push(Value::object().set("x0", q.minX).set("x1", q.maxX).set("y0", q.minY).set("y1", q.maxY));
    };
    for (Rectangle q : extra) addRect(q);
    for (int i = 0; i < base.nbCells(); ++i)
      if (base.isFixed(i) && base.isObstruction(i)) addRect(base.placement(i));
    int idx = 0;
    for (const Row &row : base.rows()) {
      Value e = vt::ev("Free");
      Value segs = Value::array();
      for (const Row &f : all) {
        // segments of this row: same y-range and inside the row's x-range (rows are pairwise disjoint)
        if (f.minY == row.minY && f.maxY == row.maxY && f.minX >= row.minX && f.maxX <= row.maxX)
          segs.push(Value::object().set("x0", f.minX).set("x1", f.maxX).set("o", vp::orientName(f.orientation)));
      }
      e.set("run", run).set("idx", idx++);
      e.set("row", Value::object().set("x0", row.minX).set("x1", row.maxX).set("y0", row.minY).set("y1", row.maxY).set("o", vp::orientName(row.orientation)));
      e.set("obs", obs).set("segs", segs).set("total", (long long)all.size()).set("nrows", (long long)base.rows().size());
      vt::emit(e);
    }
    // the consumers of the free space must see exactly that space (in their own order)
    auto rowsJson = [&](const std::vector<Row> &rows) {
      Value a = Value::array();
      for (const Row &f : rows)
        a.push(Value::object().set("x0", f.minX).set("x1", f.maxX).set("y0", f.minY).set("y1", f.maxY).set("o", vp::orientName(f.orientation)));
      return a;
    };
    auto useEv = [&](const char *kind, const Circuit &cc, const std::function<std::vector<Row>()> &get) {
      Value e = vt::ev("FreeUse");
      std::vector<Row> rows;
      std::string threw;
      try {
        rows = get();
      } catch (std::exception &ex) {
        threw = ex.what();
      }
      e.set("run", run).set("kind", kind).set("circ", vp::circuitToJson(cc)).set("rows", rowsJson(rows)).set("threw", threw);
      vt::emit(e);
    };
    useEv("circuit", base, [&] { return base.computeRows(); });
    useEv("legalizer", base, [&] { return Legalizer::fromIspdCircuit(base).rows(); });
    {
      Circuit leg = base;
      bool ok = true;
      try {
        leg.legalize(p);
      } catch (std::exception &) {
        ok = false;
      }
      if (ok) useEv("detailed", leg, [&] { return DetailedPlacement::fromIspdCircuit(leg).rows(); });
    }
  } else if (scen == "expand") {
    // C18: cell expansion to a target density / by per-cell factors / expansion factors from a congestion map.
    // All real-valued arguments are dyadic so that the contract can be evaluated exactly with integers.
    vg::Rng r((uint64_t)run * 733 + 19);
    // each entry point is exercised more than once in the same process (nothing may survive from an earlier call): density,
    // factor, congestion map, then a second and third congestion map and a second density call
    for (int step = 0; step < 6; ++step) {
      const int rep = step < 3 ? step : (step < 5 ? 2 : 0);
      Circuit a = base;
      int m2 = (int)r.pick(std::vector<int>{0, 0, 1, 2, 3});       // rowSideMargin = m2 / 2 row heights
      int p64 = (int)r.in(1, 63);                                  // target density / density cap = p64 / 64
      if (r.chance(0.6)) {
        // a target above the present density, so that the expansion has something to do
        long long cellArea = 0;
        for (int i = 0; i < a.nbCells(); ++i)
          if (!a.isFixed(i)) cellArea += a.area(i);
        long long avail = 0;
        for (const Row &fr : a.computeRows()) avail += std::max<long long>(0, (long long)fr.width() - (long long)m2 * fr.height()) * fr.height();
        if (avail > 0 && cellArea > 0 && cellArea < avail) {
          int lo64 = (int)std::min<long long>(63, 64 * cellArea / avail + 1);
          p64 = (int)r.in(lo64, 63);
        }
      }
      Value before = vp::circuitToJson(a);
      Value e = vt::ev("Expand");
      e.set("run", run).set("m2", m2).set("p64", p64).set("before", before);
      std::string outcome = "ok";
      try {
        if (rep == 0) {
          int cap64 = (int)r.pick(std::vector<int>{64, 64, 6400, 32, 8, 128});
          a.expandCellsToDensity(p64 / 64.0, m2 / 2.0, cap64 / 64.0);
          e.set("kind", "density").set("cap64", cap64);
        } else if (rep == 1) {
          std::vector<float> f;
          Value f4 = Value::array();
          for (int i = 0; i < a.nbCells(); ++i) {
            int q = (int)r.pick(std::vector<int>{4, 4, 5, 6, 8, 12, 16});
            f.push_back(q / 4.0f);
            f4.push(q);
          }
          double ret = a.expandCellsByFactor(f, p64 / 64.0, m2 / 2.0);
          e.set("kind", "factor").set("f4", f4).set("ret1000", (long long)std::llround(std::min(ret, 1.0e6) * 1000.0));
        } else {
          Rectangle area = a.computePlacementArea();
          std::vector<Circuit::CongestionRegion> map;
          Value regs = Value::array();
          int nr = (int)r.in(0, 5);
          for (int k = 0; k < nr; ++k) {
            int x0 = (int)r.in(area.minX - 5, area.maxX), y0 = (int)r.in(area.minY - 5, area.maxY);
            Rectangle q(x0, x0 + (int)r.in(0, std::max(1, area.width())), y0, y0 + (int)r.in(0, std::max(1, area.height())));
            int c4 = (int)r.pick(std::vector<int>{2, 4, 5, 6, 8, 12});   // congestion x 4
            map.emplace_back(q, c4 / 4.0f);
            regs.push(Value::object().set("x0", q.minX).set("x1", q.maxX).set("y0", q.minY).set("y1", q.maxY).set("c4", c4));
          }
          int fp4 = (int)r.pick(std::vector<int>{0, 0, 2, 4});
          int pf = (int)r.in(1, 3);
          std::vector<float> res = a.computeCellExpansion(map, fp4 / 4.0f, (float)pf);
          Value r4 = Value::array();
          for (float v : res) r4.push((long long)std::llround(v * 4.0));
          bool exact = true;
          for (float v : res)
            if (v * 4.0f != std::floor(v * 4.0f)) exact = false;
          e.set("kind", "congestion").set("regions", regs).set("fp4", fp4).set("pf", pf).set("res4", r4).set("exact", exact);
        }
      } catch (std::exception &ex) {
        outcome = "error";
      }
      e.set("outcome", outcome).set("after", vp::circuitToJson(a));
      vt::emit(e);
    }
  } else if (scen == "export") {
    // C20: export the circuit with the real Circuit::exportIspd; the package's own reader re-reads it afterwards
    Circuit a = base;
    if (run % 3 == 0) {
      // a placed circuit: legalized positions and orientations
      try {
        a.legalize(p);
      } catch (std::exception &) {
      }
    }
    std::string dir = args("exportdir", "/tmp");
    std::string path = dir + "/c" + std::to_string(run);
    a.exportIspd(path);
    Value e = vt::ev("Export");
    e.set("run", run).set("path", path).set("circ", vp::circuitToJson(a));
    vt::emit(e);
  } else if (scen == "grid") {
    // C16: the capacity grid built from a circuit (free rows after the side margin), at the finest and coarsest views
    vg::Rng r((uint64_t)run * 313 + 11);
    int m2 = (int)r.in(0, 4);                       // side margin in half row heights: exact in float
    int sf2 = (int)r.in(2, 12);                     // bin size factor in halves
    HierarchicalDensityPlacement h = HierarchicalDensityPlacement::fromIspdCircuit(base, 0.5f * sf2, 0.5f * m2);
    int minH = std::numeric_limits<int>::max();
    for (int i = 0; i < base.nbCells(); ++i)
      if (base.cellHeight_[i] > 0) minH = std::min(minH, base.cellHeight_[i]);
    for (int view = 0; view < 2; ++view) {
      if (view == 0) h.refineFully();
      else h.coarsenFully();
      Value e = vt::ev("Grid");
      e.set("run", run).set("circ", vp::circuitToJson(base)).set("m2", m2).set("sf2", sf2).set("minH", minH).set("view", view);
      Value limX = Value::array(), limY = Value::array(), caps = Value::array();
      for (int i = 0; i <= h.nbBinsX(); ++i) limX.push(h.binLimitX(i));
      for (int j = 0; j <= h.nbBinsY(); ++j) limY.push(h.binLimitY(j));
      for (int i = 0; i < h.nbBinsX(); ++i)
        for (int j = 0; j < h.nbBinsY(); ++j)
          caps.push(Value::object().set("i", i + 1).set("j", j + 1).set("cap", h.binCapacity(i, j)));
      e.set("limX", limX).set("limY", limY).set("bins", caps).set("totalCap", h.totalCapacity());
      vt::emit(e);
    }
  } else if (scen == "glob") {
    Circuit a = base;
    bool ok = call(cx, a, "A", "global", p);
    if (ok && run % 2 == 0) {
      // a second global placement of the same object after the caller changed which cells are fixed: nothing remembered from the
      // first call may be used (the circuit as it is now is the new reference)
      std::vector<bool> fixed = a.cellIsFixed();
      std::vector<int> movable;
      for (int i = 0; i < a.nbCells(); ++i)
        if (!fixed[i] && a.area(i) > 0) movable.push_back(i);
      if (movable.size() >= 2) {
        fixed[movable[run / 2 % movable.size()]] = true;
        for (int i = 0; i < a.nbCells(); ++i)
          if (a.cellIsFixed()[i] && (i + run) % 3 == 0 && a.area(i) > 0 && a.area(i) < (1LL << 26)) fixed[i] = false;   // and some (small) fixed cells are released
        a.setCellIsFixed(fixed);
        // the changed circuit must still be in the domain of global placement (a newly fixed cell cuts the rows it sits on)
        if (!vg::inGlobalDomain(a, p.global.roughLegalization.sideMargin)) return;
        Value rb = vt::ev("Rebase");
        rb.set("run", run).set("circ", vp::circuitToJson(a)).set("wl", a.hpwl());
        vt::emit(rb);
        call(cx, a, "A", "global", p);
      }
    }
  } else if (scen == "full") {
    Circuit a = base;
    if (call(cx, a, "A", "global", p))
      if (call(cx, a, "A", "legalize", p)) call(cx, a, "A", "detailed", p);
  } else {
    fprintf(stderr, "unknown scenario\n");
    _exit(2);
  }
}

// TLC-enumerated tiny expansion problem (ExpansionCases): both expansion entry points with the emitted arguments.  The Reset
// line carries the case, so that a replay re-executes exactly it.
static void runExpCase(const Value &b, int timeout, const std::string &errPath) {
  long long k = b["run"].asInt();
  Circuit base = vp::circuitFromJson(b["circ"]);
  Value rs = vt::ev("Reset");
  rs.set("run", k).set("scen", "expcase").set("gseed", k).set("params", vg::paramsToJson(ColoquinteParameters(3))).set("circ", b["circ"]).set("wl", 0);
  rs.set("case", b);
  vt::emit(rs);
  int p64 = (int)b["p64"].asInt(), m2 = (int)b["m2"].asInt(), cap64 = (int)b["cap64"].asInt();
  vt::forked((int)k, timeout, errPath, [&] {
    for (int rep = 0; rep < 2; ++rep) {
      Circuit a = base;
      Value e = vt::ev("Expand");
      e.set("run", (int)k).set("m2", m2).set("p64", p64).set("before", vp::circuitToJson(a));
      std::string outcome = "ok";
      try {
        if (rep == 0) {
          a.expandCellsToDensity(p64 / 64.0, m2 / 2.0, cap64 / 64.0);
          e.set("kind", "density").set("cap64", cap64);
        } else {
          std::vector<float> f;
          for (long long q : b["f4"].longs()) f.push_back((float)q / 4.0f);
          double ret = a.expandCellsByFactor(f, p64 / 64.0, m2 / 2.0);
          e.set("kind", "factor").set("f4", b["f4"]).set("ret1000", (long long)std::llround(std::min(ret, 1.0e6) * 1000.0));
        }
      } catch (std::exception &ex) {
        outcome = "error";
      }
      e.set("outcome", outcome).set("after", vp::circuitToJson(a));
      vt::emit(e);
    }
  }, "expand");
}

int main(int argc, char **argv) {
  for (int i = 1; i < argc; ++i) {
    const char *eq = strchr(argv[i], '=');
    if (eq) g_args[std::string(argv[i], eq - argv[i])] = eq + 1;
  }
  vt::openTrace(args("out", "/dev/stdout"));
  std::string scen = args("scen", "leg");
  std::string errPath = args("out", "/tmp/record") + ".stderr";
  int timeout = (int)argi("timeout", 60);

  if (g_args.count("replay")) {
    std::ifstream f(g_args["replay"]);
    std::string line;
    std::getline(f, line);
    Value rs = vj::parse(line);
    if (rs.has("case") && rs["scen"].asStr() == "expcase") {
      runExpCase(rs["case"], timeout, errPath);
      return 0;
    }
    Circuit base = vp::circuitFromJson(rs["circ"]);
    // parameters are regenerated from the recorded generator seed
    vg::Rng pr((uint64_t)rs["pseed"].asInt());
    vg::ParamOpts po;
    po.defaultsOnly = rs["popts"]["defaultsOnly"].asBool();
    po.reorder = rs["popts"]["reorder"].asBool();
    po.wideOrdering = rs["popts"]["wideOrdering"].asBool();
    po.reorderFocus = rs["popts"].has("reorderFocus") && rs["popts"]["reorderFocus"].asBool();
    ColoquinteParameters p = vg::genParams(pr, po);
    if (rs.has("explicit")) p = ColoquinteParameters((int)rs["effort"].asInt(), 7);
    if (rs.has("maxsteps")) {
      p.global.maxNbSteps = (int)rs["maxsteps"].asInt();
      p.global.nbInitialSteps = std::min(p.global.nbInitialSteps, p.global.maxNbSteps - 1);
    }
    vt::emit(rs);
    vt::forked((int)rs["run"].asInt(), timeout, errPath,
               [&] { scenario(rs["scen"].asStr(), (int)rs["run"].asInt(), base, p, rs["withCb"].asBool()); });
    return 0;
  }

  if (g_args.count("cases")) {
    // TLC-emitted C07 case table: {"scen":"c07","shape":..,"mag":..,"variant":..,"run":k}
    std::ifstream f(g_args["cases"]);
    std::string line;
    long long sd = argi("seed", 1);
    while (std::getline(f, line)) {
      Value b;
      if (!vj::parseLine(line, b)) continue;
      if (b.has("circ") && b["scen"].asStr() == "legcase") {
        // TLC-enumerated small circuit (LegalizeCases): legalize twice with an observing callback
        long long k = b["run"].asInt();
        Circuit base = vp::circuitFromJson(b["circ"]);
        ColoquinteParameters p(1 + (int)(k % 9), 7);
        Value rs = vt::ev("Reset");
        rs.set("run", k).set("scen", "leg").set("gseed", k).set("pseed", 0).set("explicit", true).set("effort", 1 + (int)(k % 9));
        Value pj = vg::paramsToJson(p);
        if (b.has("impl")) pj.set("impl", b["impl"]);   // what the implementation-shaped specification predicts (LegalizeImpl.Result)
        rs.set("withCb", true).set("params", pj).set("circ", b["circ"]).set("wl", 0);
        vt::emit(rs);
        vt::forked((int)k, timeout, errPath, [&] { scenario("leg", (int)k, base, p, true); });
        continue;
      }
      if (b.has("scen") && b["scen"].asStr() == "expcase") {
        runExpCase(b, timeout, errPath);
        continue;
      }
      if (!b.has("shape")) continue;
      long long k = b["run"].asInt();
      uint64_t s = (uint64_t)sd * 7919ULL + (uint64_t)b["variant"].asInt() * 104729ULL + std::hash<std::string>()(b["shape"].asStr()) % 1000003ULL + (uint64_t)b["mag"].asInt();
      vg::Rng r(s);
      Circuit base = vg::genShape(r, b["shape"].asStr(), (int)b["mag"].asInt());
      uint64_t pseed = r.u() >> 1;
      vg::Rng pr(pseed);
      vg::ParamOpts po;
      ColoquinteParameters p = vg::genParams(pr, po);
      p.global.maxNbSteps = std::min(p.global.maxNbSteps, 25);
      p.global.nbInitialSteps = std::min(p.global.nbInitialSteps, p.global.maxNbSteps - 1);
      std::string sc = b["variant"].asInt() % 2 ? "full" : "det";
      Value rs = vt::ev("Reset");
      Value pov = Value::object();
      pov.set("defaultsOnly", po.defaultsOnly).set("reorder", po.reorder).set("wideOrdering", po.wideOrdering).set("reorderFocus", po.reorderFocus);
      rs.set("run", k).set("scen", sc).set("gseed", (long long)s).set("pseed", (long long)pseed).set("popts", pov).set("c07", b);
      rs.set("withCb", false).set("params", vg::paramsToJson(p)).set("circ", vp::circuitToJson(base)).set("wl", 0);
      rs.set("maxsteps", p.global.maxNbSteps);
      vt::emit(rs);
      vt::forked((int)k, timeout, errPath, [&] { scenario(sc, (int)k, base, p, false); });
    }
    unlink(errPath.c_str());
    return 0;
  }
  long long seed = argi("seed", 1), first = argi("first", 0), runs = argi("runs", 10);
  vg::GenOpts go;
  go.maxMovable = (int)argi("maxMovable", go.maxMovable);
  go.maxFixed = (int)argi("maxFixed", go.maxFixed);
  go.maxNets = (int)argi("maxNets", go.maxNets);
  go.multiRow = argi("multiRow", 1);
  go.turned = argi("turned", 1);
  go.polar = argi("polar", 1);
  go.splitRows = argi("splitRows", 1);
  go.fixedNonObstruction = argi("fixedNonObstruction", 1);
  go.farTargets = argi("farTargets", 1);
  go.scaleShift = (int)argi("scaleShift", 0);
  go.globalDomain = argi("globalDomain", 0);
  go.singleRowOnly = argi("singleRowOnly", 0);
  go.unitRows = argi("unitRows", 0);
  go.tallMix = argi("tallMix", 0);
  go.twoTypes = argi("twoTypes", 0);
  go.clump = argi("clump", 0);
  go.connectAll = argi("connectAll", 0);
  go.zeroAreaMovable = argi("zeroAreaMovable", 0);
  go.utilLo = atof(args("utilLo", "0.05").c_str());
  go.utilHi = atof(args("utilHi", "1.3").c_str());
  vg::ParamOpts po;
  po.defaultsOnly = argi("defaultParams", 0);
  po.reorder = argi("reorder", 1);
  po.reorderFocus = argi("reorderFocus", 0);
  po.wideOrdering = argi("wideOrdering", 1);
  int cbMode = (int)argi("cb", 2);  // 0 never, 1 always, 2 random

  for (long long k = first; k < first + runs; ++k) {
    uint64_t s = (uint64_t)seed * 1000003ULL + (uint64_t)k;
    vg::Rng r(s);
    vg::GenOpts g = go;
    if (argi("varyScale", 0) == 1) g.scaleShift = (int)r.pick(std::vector<int>{0, 0, 3, 10, 16});
    else if (argi("varyScale", 0) > 1) {
      int vs = (int)argi("varyScale", 0);
      g.scaleShift = (int)r.pick(std::vector<int>{0, 0, 3, vs / 2, vs});
    }
    auto draw = [&]() {
      Circuit c = vg::genCircuit(r, g);
      if (argi("hugeArea", 0)) {
        // magnify so that the total movable area lands between 2^31 and 2^32 (where a 32-bit sum turns negative) while every single
        // cell stays far below 2^31; hugeArea=k: k times that (with infeasible density: an excess of several times 2^31)
        long long total = 0;
        for (int i = 0; i < c.nbCells(); ++i)
          if (!c.isFixed(i)) total += c.area(i);
        if (total > 0) {
          int f = (int)std::llround(std::sqrt(1.4 * (double)argi("hugeArea", 1) * 2147483648.0 / (double)total));
          if (f >= 2 && f < 40000) vg::magnifyCircuit(c, f);
        }
      }
      if (argi("translate", 0)) {
        // far from the origin: 2^24 is where single-precision floats stop representing every integer
        static const std::vector<int> shifts = {0, (1 << 24) + 1, (1 << 25) + 3, -(1 << 25) - 5, 1 << 27};
        vg::Rng tr(s ^ 0x9e3779b97f4a7c15ULL);
        vg::translateCircuit(c, tr.pick(shifts), tr.pick(shifts));
      }
      return c;
    };
    Circuit base = draw();
    uint64_t pseed = r.u() >> 1;
    vg::Rng pr(pseed);
    ColoquinteParameters p = vg::genParams(pr, po);
    if (g.globalDomain) {
      // stay inside the C06 domain: redraw until a free segment survives the side margin
      for (int tries = 0; tries < 50 && !vg::inGlobalDomain(base, p.global.roughLegalization.sideMargin); ++tries) {
        base = draw();
      }
      if (!vg::inGlobalDomain(base, p.global.roughLegalization.sideMargin)) continue;
    }
    bool withCb = cbMode == 1 || (cbMode == 2 && r.chance(0.7));
    Value rs = vt::ev("Reset");
    Value pov = Value::object();
    pov.set("defaultsOnly", po.defaultsOnly).set("reorder", po.reorder).set("wideOrdering", po.wideOrdering).set("reorderFocus", po.reorderFocus);
    rs.set("run", (long long)k).set("scen", scen).set("gseed", (long long)s).set("pseed", (long long)pseed).set("popts", pov);
    rs.set("withCb", withCb).set("params", vg::paramsToJson(p)).set("circ", vp::circuitToJson(base)).set("wl", base.hpwl());
    vt::emit(rs);
    vt::forked((int)k, timeout, errPath, [&] { scenario(scen, (int)k, base, p, withCb); });
  }
  unlink(errPath.c_str());
  return 0;
}
