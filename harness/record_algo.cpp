// Code -> spec recorder for the self-contained algorithms (C12 RowLegalizer, C13 TransportationProblem,
// C14 Transportation1d): one event per recorded execution with inputs and outputs, preceded by an AlgoBegin event
// carrying the instance so that an execution that dies (sanitizer, abort) can still be replayed.
//   record_algo out=<trace> scen=<rowhist|transport|t1d> seed=<n> first=<k> runs=<n>
//   record_algo out=<trace> replay=<file with one AlgoBegin line>
#include <cmath>
#include <cstring>
#include <fstream>
#include <map>

#include "gen.hpp"
#include "place_detailed/row_legalizer.hpp"
#include "place_global/density_legalizer.hpp"
#include "place_global/net_model.hpp"
#include "place_global/transportation.hpp"
#include "place_global/transportation_1d.hpp"
#include "project.hpp"
#include "trace.hpp"

using namespace coloquinte;
using vj::Value;

static std::map<std::string, std::string> g_args;
static long long argi(const char *k, long long d) { return g_args.count(k) ? atoll(g_args[k].c_str()) : d; }
static std::string args(const char *k, const char *d) { return g_args.count(k) ? g_args[k] : d; }

static Value mat(const std::vector<std::vector<long long>> &m) {
  Value v = Value::array();
  for (auto &r : m) v.push(Value::from(r));
  return v;
}

// ---------------------------------------------------------------- instance generators (as JSON, so that replay is uniform)
static Value genRowHist(vg::Rng &r) {
  int shift = (int)r.pick(std::vector<int>{0, 0, 4, 10, 17, 22});
  long long unit = shift ? r.in(1LL << (shift - 1), 1LL << shift) : 1;
  long long b = r.chance(0.5) ? 0 : r.in(-4, 4) * unit;
  int n = (int)r.in(1, shift >= 17 ? 12 : 40);
  long long maxLen = (1LL << 22) - std::llabs(b);
  std::vector<long long> w(n);
  long long tot = 0;
  for (int i = 0; i < n; ++i) {
    w[i] = std::max<long long>(1, r.in(1, 6) * unit / (shift >= 17 ? 8 : 1));
    tot += w[i];
  }
  long long e = b + tot + (r.chance(0.3) ? 0 : r.in(0, tot));
  if (e - b > maxLen) {
    // shrink everything to the supported magnitude
    double f = (double)maxLen / (double)(e - b);
    tot = 0;
    for (int i = 0; i < n; ++i) {
      w[i] = std::max<long long>(1, (long long)(w[i] * f * 0.9));
      tot += w[i];
    }
    e = b + tot + r.in(0, std::max<long long>(0, maxLen - tot - 1));
  }
  Value cells = Value::array();
  long long cursor = b;
  for (int i = 0; i < n; ++i) {
    long long t;
    double p = r.real(0, 1);
    if (p < 0.15) t = r.in(b - 3 * (e - b), e + 3 * (e - b));  // far outside
    else if (p < 0.5) t = cursor + r.in(-2 * w[i], 2 * w[i]);        // roughly sorted
    else t = r.in(b - w[i], e);
    if (t > (1LL << 22)) t = (1LL << 22);
    if (t < -(1LL << 22)) t = -(1LL << 22);
    cursor += w[i];
    cells.push(Value::array().push(w[i]).push(t));
  }
  Value v = Value::object();
  v.set("b", b).set("e", e).set("cells", cells).set("queries", r.chance(0.7));
  return v;
}

static Value genTransport(vg::Rng &r, bool big) {
  int ns = (int)r.in(1, big ? 16 : 8), nr = (int)r.in(1, big ? 60 : 40);
  if (r.chance(0.3)) {
    ns = (int)r.in(1, 4);
    nr = (int)r.in(1, 6);
  }
  std::vector<long long> dem(nr), cap(ns);
  long long td = 0;
  for (auto &d : dem) {
    d = r.chance(0.2) ? r.in(1, 3) : r.in(1, 50);
    td += d;
  }
  // capacities: balanced, with slack, or short (then increaseCapacity is applied)
  int mode = (int)r.in(0, 3);
  long long target = mode == 0 ? td : mode == 1 ? td + r.in(1, td) : mode == 2 ? std::max<long long>(ns, td - r.in(1, std::max<long long>(1, td / 3))) : td + r.in(0, 3);
  long long left = std::max<long long>(target, ns);
  for (int i = 0; i < ns; ++i) {
    long long c = i + 1 == ns ? left : std::max<long long>(1, r.in(1, std::max<long long>(1, 2 * left / (ns - i))));
    c = std::min(c, left - (ns - i - 1));
    c = std::max<long long>(c, 1);
    cap[i] = c;
    left -= c;
  }
  bool fl = r.chance(0.35);
  int style = (int)r.in(0, 3);  // 0 small ints with ties, 1 zeros, 2 large spread, 3 geometric (distance-like)
  Value cost = Value::array();
  std::vector<long long> sx(nr), kx(ns);
  for (auto &x : sx) x = r.in(0, 1000);
  for (auto &x : kx) x = r.in(0, 1000);
  for (int i = 0; i < ns; ++i) {
    Value row = Value::array();
    for (int s = 0; s < nr; ++s) {
      long long c;
      if (style == 0) c = r.in(0, 5);
      else if (style == 1) c = r.chance(0.5) ? 0 : r.in(0, 9);
      else if (style == 2) c = r.chance(0.3) ? r.in(0, 3) : r.in(0, 1000000);
      else c = std::llabs(sx[s] - kx[i]);
      row.push(c);
    }
    cost.push(row);
  }
  Value v = Value::object();
  v.set("cap", Value::from(cap)).set("dem", Value::from(dem)).set("cost", cost).set("float", fl).set("increase", mode == 2);
  // quantities (cell areas) are long long: the same instance with every capacity and demand multiplied by 2^qscale.  The
  // solver only compares and subtracts quantities, so the plan is the same in units of 2^qscale; the event is logged in units.
  int qs = 0;
  if (big && style != 2) qs = (int)r.pick(std::vector<int>{0, 27, 31, 33, 36});
  v.set("qscale", qs);
  // increaseCapacity() when the capacity already suffices: must change nothing (this is the call sequence of the rough legalizer)
  v.set("incNoop", mode != 2 && r.chance(0.6));
  return v;
}

static Value genT1d(vg::Rng &r) {
  int ns = (int)r.in(1, 16), nr = (int)r.in(1, 30);
  if (r.chance(0.4)) {
    ns = (int)r.in(1, 4);
    nr = (int)r.in(1, 5);
  }
  long long range = r.pick(std::vector<long long>{5, 20, 1000, 100000000});
  std::vector<long long> u(nr), v(ns), s(nr), d(ns);
  for (auto &x : u) x = r.in(0, range);
  for (auto &x : v) x = r.in(0, range);
  if (r.chance(0.3))
    for (auto &x : u) x = r.pick(v);  // coincident positions
  long long ts = 0;
  for (auto &x : s) {
    x = r.chance(0.2) ? 0 : r.in(1, 20);
    ts += x;
  }
  long long td = 0;
  for (auto &x : d) {
    x = r.chance(0.2) ? 0 : r.in(1, 30);
    td += x;
  }
  bool balance = false;
  if (td < ts) {
    if (r.chance(0.5)) balance = true;  // via balanceDemand()
    else d[r.in(0, ns - 1)] += ts - td + (r.chance(0.5) ? 0 : r.in(0, 10));
  }
  Value o = Value::object();
  o.set("u", Value::from(u)).set("v", Value::from(v)).set("s", Value::from(s)).set("d", Value::from(d)).set("balance", balance);
  // supplies and demands are long long: the same instance with every quantity multiplied by 2^qscale (totals beyond 2^31); the
  // event is logged in units of 2^(qscale-4), so that the shares balanceDemand() adds to 1, 2, 4, 8 or 16 sinks stay whole
  o.set("qscale", r.pick(std::vector<int>{0, 0, 0, 29, 33, 36}));
  return o;
}

// C16: regions (free rows after margin), bin size, cell demands (zeros included), float targets, a sequence of operations
static Value genDensity(vg::Rng &r, bool big = false);
// Large designs: the same kind of instance, laid out so that every bin limit is a multiple of the bin size, and executed with all
// lengths multiplied by 2^12 (areas by 2^24): single bins stay below 2^31 units of area, coarser views exceed it.  The trace is
// logged back in the small units (TLC computes with 32-bit integers).
static Value genDensityBig(vg::Rng &r) {
  Value v = genDensity(r, true);
  v.set("kshift", 12);
  return v;
}
static Value genDensity(vg::Rng &r, bool big) {
  int H = (int)r.pick(std::vector<int>{1, 2, 4, 8});
  int nRows = (int)r.in(1, 7);
  int ox = (int)r.in(-30, 30), oy = (int)r.in(-10, 10) * H;
  int W = (int)r.in(3, 60);
  int bigBin = 0;
  if (big) {
    // bin = m rows high, the area is nx x ny bins exactly, no gaps between rows, the first row spans the whole width
    int m = (int)r.in(1, 3);
    bigBin = m * H;
    nRows = m * (int)r.in(2, 4);
    W = bigBin * (int)r.in(2, 6);
  }
  Value regions = Value::array();
  int y = oy;
  for (int k = 0; k < nRows; ++k) {
    if (!big && k > 0 && r.chance(0.2)) y += H * (int)r.in(1, 2);  // gap between rows
    int x0 = ox + (r.chance(0.3) && !(big && k == 0) ? (int)r.in(0, W / 3) : 0), x1 = ox + W - (r.chance(0.3) && !(big && k == 0) ? (int)r.in(0, W / 3) : 0);
    if (x1 <= x0) x1 = x0 + 1;
    if (r.chance(0.25) && x1 - x0 >= 4) {
      int c0 = (int)r.in(x0 + 1, x1 - 2), c1 = (int)r.in(c0 + 1, x1 - 1);  // an obstruction cuts the row
      regions.push(Value::array().push(x0).push(c0).push(y).push(y + H));
      regions.push(Value::array().push(c1).push(x1).push(y).push(y + H));
    } else {
      regions.push(Value::array().push(x0).push(x1).push(y).push(y + H));
    }
    y += H;
  }
  int bin = (int)std::max<long long>(1, r.in(1, 5) * H + (r.chance(0.3) ? r.in(0, 3) : 0));
  if (big) bin = bigBin;
  int n = (int)r.in(1, 24);
  std::vector<int> dem(n);
  Value tx = Value::array(), ty = Value::array();
  for (int i = 0; i < n; ++i) {
    dem[i] = r.chance(0.15) ? 0 : (int)r.in(1, big ? std::min(100, 3 * H * H + 2) : 3 * H * H + 2);
    double p = r.real(0, 1);
    // targets as integers / 4 (exact floats): inside, outside, coincident
    long long x = p < 0.2 ? (long long)(ox + W / 2) * 4 : p < 0.4 ? r.in((ox - 3 * W) * 4, (ox + 4 * W) * 4) : r.in(ox * 4, (ox + W) * 4);
    long long yy = p < 0.2 ? (long long)oy * 4 : p < 0.4 ? r.in((oy - 40) * 4, (y + 40) * 4) : r.in(oy * 4, y * 4);
    tx.push(x);
    ty.push(yy);
  }
  static const char *ops[] = {"run", "refine", "improve", "refineX", "refineY", "coarsenX", "coarsenY", "coarsenFully", "refineFully", "retarget", "badUpdate"};
  Value seq = Value::array();
  int nOps = (int)r.in(2, 10);
  for (int k = 0; k < nOps; ++k) seq.push(ops[r.in(0, 10)]);
  Value pr = Value::object();
  pr.set("cost", r.in(0, 5)).set("steps", r.in(0, 2));
  int ls = (int)r.pick(std::vector<int>{1, 2, 3, 8}), ds = (int)r.pick(std::vector<int>{1, 2, 3, 8}), ss = (int)r.in(1, 4);
  pr.set("line", ls).set("lineO", ls > 1 ? r.in(1, ls - 1) : 1).set("diag", ds).set("diagO", ds > 1 ? r.in(1, ds - 1) : 1);
  pr.set("square", ss).set("squareO", ss > 1 ? r.in(1, ss - 1) : 1).set("t1d", r.chance(0.5)).set("quad", r.in(0, 3)).set("coarsen", r.pick(std::vector<int>{1, 10, 100}));
  Value v = Value::object();
  v.set("regions", regions).set("bin", bin).set("demands", Value::from(dem)).set("tx4", tx).set("ty4", ty).set("ops", seq).set("params", pr);
  return v;
}

// C17: a small net list with dyadic weights / offsets / fixed pin positions; every cell is tied (directly or through a chain)
// to a fixed pin so that the least-squares problem is well posed
static Value genNetw(vg::Rng &r) {
  int n = (int)r.in(1, 6);
  Value nets = Value::array();
  std::vector<int> w4s = {1, 2, 4, 4, 8, 3, 6};     // weights x 4: 0.25 .. 4, including values below 1
  auto pin = [&](int cell, long long off4) { return Value::object().set("c", cell).set("o4", off4); };
  // chain: cell i tied to cell i-1 (or to a fixed pin for cell 0)
  for (int i = 0; i < n; ++i) {
    Value pins = Value::array();
    pins.push(pin(i + 1, r.in(-8, 8)));
    if (i == 0 || r.chance(0.3)) pins.push(pin(0, r.in(-200, 200)));   // cell 0 = fixed pin, o4 = position x 4
    else pins.push(pin((int)r.in(1, i), r.in(-8, 8)));
    nets.push(Value::object().set("w4", r.pick(w4s)).set("pins", pins));
  }
  int extra = (int)r.in(0, 5);
  for (int k = 0; k < extra; ++k) {
    int deg = (int)r.in(2, 4);
    Value pins = Value::array();
    for (int j = 0; j < deg; ++j) {
      if (r.chance(0.25)) pins.push(pin(0, r.in(-200, 200)));
      else pins.push(pin((int)r.in(1, n), r.in(-8, 8)));
    }
    nets.push(Value::object().set("w4", r.pick(w4s)).set("pins", pins));
  }
  Value v = Value::object();
  Value tgt = Value::array(), str = Value::array();
  for (int i = 0; i < n; ++i) {
    tgt.push(r.in(-100, 100));
    str.push(r.pick(std::vector<int>{1, 2, 4, 8, 0, 0}));   // strength x 4 (zero: what the placer gives to zero-area cells)
  }
  v.set("n", n).set("nets", nets).set("model", r.in(0, 3)).set("tgt4", tgt).set("str4", str);
  v.set("tol", r.pick(std::vector<int>{6, 6, 4}));   // CG tolerance 1e-<tol>
  v.set("cut4", r.pick(std::vector<int>{1, 4, 40})).set("eps4", r.pick(std::vector<int>{1, 2, 8}));
  // how the model is built: 0 = addNet(cells, offsets, weight) with fixed pins as cell -1; 1 = addNet(cells, offsets, minPin, maxPin, weight);
  // 2 = NetModel::xTopology of a Circuit with setNetWeights (coordinates x 4 so that quarter offsets become integers)
  v.set("via", r.in(0, 2));
  return v;
}

// Potentials on the sinks (Bellman-Ford over the residual graph): an untrusted optimality certificate that TLC checks.
static std::vector<long long> potentials(const std::vector<long long> &cap, const std::vector<std::vector<long long>> &cost,
                                         const std::vector<std::vector<long long>> &alloc) {
  int n = (int)cap.size();
  int m = n ? (int)alloc[0].size() : 0;
  const long long INF = (1LL << 60);
  std::vector<std::vector<long long>> w(n, std::vector<long long>(n, INF));
  for (int i = 0; i < n; ++i) {
    long long used = 0;
    for (int s = 0; s < m; ++s) used += alloc[i][s];
    for (int j = 0; j < n; ++j) {
      if (i == j) continue;
      long long best = INF;
      for (int s = 0; s < m; ++s)
        if (alloc[i][s] > 0) best = std::min(best, cost[j][s] - cost[i][s]);
      if (used < cap[i]) best = std::min(best, 0LL);
      w[i][j] = best;
    }
  }
  std::vector<long long> d(n, 0);
  for (int round = 0; round < n + 1; ++round)
    for (int i = 0; i < n; ++i)
      for (int j = 0; j < n; ++j)
        if (w[i][j] < INF && d[i] + w[i][j] < d[j]) d[j] = d[i] + w[i][j];
  return d;
}

// ---------------------------------------------------------------- executions
static void runRowHist(int run, const Value &in) {
  int b = (int)in["b"].asInt(), e = (int)in["e"].asInt();
  RowLegalizer leg(b, e);
  Value costs = Value::array(), preds = Value::array();
  bool pure = true;
  const Value &cells = in["cells"];
  for (size_t i = 0; i < cells.size(); ++i) {
    int w = (int)cells[i][0].asInt(), t = (int)cells[i][1].asInt();
    long long q = 0;
    if (in["queries"].asBool()) {
      std::vector<int> before = leg.getPlacement();
      q = leg.getCost(w, t);
      long long q2 = leg.getCost(w, t);
      if (q != q2 || leg.getPlacement() != before) pure = false;
    }
    long long c = leg.push(w, t);
    if (!in["queries"].asBool()) q = c;
    costs.push(vp::bigToJson(c)["d"]);
    preds.push(vp::bigToJson(q)["d"]);
    if (c < 0 || q < 0) pure = false;
  }
  Value ev = vt::ev("RowHist");
  ev.set("run", run).set("lo", b).set("hi", e).set("cells", cells).set("pl", Value::from(leg.getPlacement()));
  ev.set("costs", costs).set("preds", preds).set("pure", pure);
  vt::emit(ev);
}

static void runTransport(int run, const Value &in) {
  std::vector<long long> cap = in["cap"].longs(), dem = in["dem"].longs();
  int ns = (int)cap.size(), nr = (int)dem.size();
  int qs = in.has("qscale") ? (int)in["qscale"].asInt() : 0;
  for (auto &c : cap) c <<= qs;
  for (auto &d : dem) d <<= qs;
  Value ev = vt::ev("Transport");
  ev.set("run", run).set("qscale", qs);
  auto finish = [&](TransportationProblem &pb) {
    if (in["increase"].asBool() || (in.has("incNoop") && in["incNoop"].asBool())) pb.increaseCapacity();
    {
      // after the normalisation the capacity covers the demand and is not larger than needed: sum(cap') = max(sum(cap), sum(dem))
      long long sc = 0, sd = 0, sc1 = 0;
      for (long long x : cap) sc += x;
      for (long long x : dem) sd += x;
      for (long long x : pb.capacities()) sc1 += x;
      bool inc = in["increase"].asBool();
      long long want = inc ? std::max(sc, sd) : sc;
      ev.set("capShort", sc1 < sd).set("capExcess", sc1 != want);
      if (sc1 < sd) {
        // solving would not terminate: log the fate and stop here
        ev.set("units", true).set("capKept", true).set("cap", Value::array()).set("dem", Value::array()).set("cost", Value::array()).set("alloc", Value::array());
        ev.set("poth", Value::array()).set("potl", Value::array()).set("assign", Value::array());
        return;
      }
    }
    pb.solve();
    std::vector<std::vector<long long>> costs(ns, std::vector<long long>(nr));
    long long maxc = 0;
    for (int i = 0; i < ns; ++i)
      for (int s = 0; s < nr; ++s) maxc = std::max(maxc, (long long)in["cost"][i][s].asInt());
    // The plan is judged against the costs the caller posed.  Integer costs: exactly those.  Float costs (0.37 x the instance's
    // integers): a plan is optimal for them iff it is optimal for the integers, as long as the solver's fixed-point rounding cannot
    // reorder path sums - guaranteed here for costs up to 1000; beyond that the solver's own integer costs are used.
    bool posed = !in["float"].asBool() || maxc <= 1000;
    for (int i = 0; i < ns; ++i)
      for (int s = 0; s < nr; ++s) costs[i][s] = posed ? (long long)in["cost"][i][s].asInt() : pb.cost(i, s);
    ev.set("costsPosed", posed);
    // back to units of 2^qscale (exact for the plans of this solver; if not, the event says so and TLC gives no verdict on the plan)
    // capacities as posed: increaseCapacity() on a problem whose capacity suffices must not change them, and the plan is judged
    // against what the caller posed
    bool noop = !in["increase"].asBool() && in.has("incNoop") && in["incNoop"].asBool();
    std::vector<long long> ucap = noop ? cap : pb.capacities(), udem = pb.demands();
    ev.set("capKept", !noop || pb.capacities() == cap);
    std::vector<std::vector<long long>> ualloc = pb.allocations();
    bool units = true;
    long long mask = qs > 0 ? ((1LL << qs) - 1) : 0;
    for (auto &c : ucap) { units = units && (c & mask) == 0; c >>= qs; }
    for (auto &d : udem) { units = units && (d & mask) == 0; d >>= qs; }
    for (auto &row : ualloc)
      for (auto &a : row) { units = units && (a & mask) == 0; a >>= qs; }
    ev.set("units", units);
    ev.set("cap", Value::from(ucap)).set("dem", Value::from(udem)).set("cost", mat(costs));
    ev.set("alloc", mat(ualloc));
    {
      // potentials as hi * 2^20 + lo: path sums of scaled costs may exceed 32 bits
      std::vector<long long> pot = potentials(ucap, costs, ualloc), ph, pl;
      for (long long v : pot) {
        long long hi = v >= 0 ? v / 1048576 : -((-v + 1048575) / 1048576);
        ph.push_back(hi);
        pl.push_back(v - hi * 1048576);
      }
      ev.set("poth", Value::from(ph)).set("potl", Value::from(pl));
    }
    std::vector<int> as = pb.toAssignment();
    for (auto &a : as) a += 1;
    ev.set("assign", Value::from(as));
  };
  if (in["float"].asBool()) {
    std::vector<std::vector<float>> c(ns, std::vector<float>(nr));
    for (int i = 0; i < ns; ++i)
      for (int s = 0; s < nr; ++s) c[i][s] = (float)in["cost"][i][s].asInt() * 0.37f;
    TransportationProblem pb(cap, dem, c);
    finish(pb);
  } else {
    std::vector<std::vector<int>> c(ns, std::vector<int>(nr));
    for (int i = 0; i < ns; ++i)
      for (int s = 0; s < nr; ++s) c[i][s] = (int)in["cost"][i][s].asInt();
    TransportationProblem pb(cap, dem, c);
    finish(pb);
  }
  vt::emit(ev);
}

static void runT1dOnce(int run, const Value &in, int rot);
// The instance, then the same positions with the demands rotated by one sink (another pattern of zero demands), then the instance
// again: three independent problems in one process - nothing of one may be remembered for the next.
static void runT1d(int run, const Value &in) {
  runT1dOnce(run, in, 0);
  if (in.has("qscale") && in["d"].size() >= 2) {
    runT1dOnce(run, in, 1);
    runT1dOnce(run, in, 0);
  }
}
static void runT1dOnce(int run, const Value &in, int rot) {
  const int qs = in.has("qscale") ? (int)in["qscale"].asInt() : 0;
  std::vector<long long> s0 = in["s"].longs(), d0 = in["d"].longs();
  if (rot) std::rotate(d0.begin(), d0.begin() + rot, d0.end());
  for (auto &x : s0) x <<= qs;
  for (auto &x : d0) x <<= qs;
  Transportation1d pb(in["u"].longs(), in["v"].longs(), s0, d0);
  if (in["balance"].asBool()) pb.balanceDemand();
  const long long U = qs > 0 ? (1LL << (qs - 4)) : 1;
  bool units = true;
  auto inUnits = [&](std::vector<long long> q) {
    for (auto &x : q) {
      units = units && x % U == 0;
      x /= U;
    }
    return q;
  };
  Value ev = vt::ev("T1d");
  ev.set("run", run).set("u", Value::from(pb.sourcePosition())).set("v", Value::from(pb.sinkPosition()));
  ev.set("s", Value::from(inUnits(pb.sourceSupply()))).set("d", Value::from(inUnits(pb.sinkDemand()))).set("qscale", qs);
  int ns = pb.nbSinks(), nr = pb.nbSources();
  try {
    Transportation1d::Solution sol = pb.solve();
    std::vector<std::vector<long long>> alloc(ns, std::vector<long long>(nr, 0));
    for (auto [i, j, a] : sol) alloc[j][i] += a;
    for (auto &row : alloc) row = inUnits(row);
    ev.set("alloc", mat(alloc));
    {
      std::vector<std::vector<long long>> cost(ns, std::vector<long long>(nr));
      for (int j = 0; j < ns; ++j)
        for (int i = 0; i < nr; ++i) cost[j][i] = pb.cost(i, j);
      std::vector<long long> dUnits = pb.sinkDemand();
      for (auto &x : dUnits) x /= U;
      std::vector<long long> pot = potentials(dUnits, cost, alloc), ph, pl;
      for (long long v : pot) {
        long long hi = v >= 0 ? v / 1048576 : -((-v + 1048575) / 1048576);
        ph.push_back(hi);
        pl.push_back(v - hi * 1048576);
      }
      ev.set("poth", Value::from(ph)).set("potl", Value::from(pl));
    }
    std::vector<int> as = pb.assign();
    for (auto &a : as) a += 1;
    ev.set("assign", Value::from(as)).set("fate", "ok");
  } catch (std::exception &ex) {
    ev.set("alloc", Value::array()).set("poth", Value::array()).set("potl", Value::array()).set("assign", Value::array()).set("fate", std::string("throw: ") + ex.what());
  }
  ev.set("units", units);
  vt::emit(ev);
}

static int g_kshift = 0;   // lengths of the executed instance are 2^g_kshift times those of the logged one
static void logHier(int run, int step, const std::string &op, bool skipped, const DensityLegalizer &leg, const Value &in,
                    const std::vector<float> &tx, const std::vector<float> &ty) {
  const int ks = g_kshift;
  const long long lm = (1LL << ks) - 1, am = (1LL << (2 * ks)) - 1;
  bool units = true;
  auto len = [&](long long v) { units = units && (v & lm) == 0; return v / (lm + 1); };
  auto area = [&](long long v) { units = units && (v & am) == 0; return v / (am + 1); };
  const float inv = 1.0f / (float)(1 << ks);
  Value ev = vt::ev("Hier");
  ev.set("run", run).set("step", step).set("op", op).set("skipped", skipped).set("regions", in["regions"]).set("demands", in["demands"]);
  ev.set("lx", leg.levelX()).set("ly", leg.levelY()).set("nlx", leg.nbLevelX()).set("nly", leg.nbLevelY());
  Value limX = Value::array(), limY = Value::array();
  for (int i = 0; i <= leg.nbBinsX(); ++i) limX.push(len(leg.binLimitX(i)));
  for (int j = 0; j <= leg.nbBinsY(); ++j) limY.push(len(leg.binLimitY(j)));
  ev.set("limX", limX).set("limY", limY);
  Value bins = Value::array();
  for (int i = 0; i < leg.nbBinsX(); ++i)
    for (int j = 0; j < leg.nbBinsY(); ++j) {
      Value b = Value::object();
      std::vector<int> cs = leg.binCells(i, j);
      for (auto &c : cs) c += 1;
      b.set("i", i + 1).set("j", j + 1).set("cap", area(leg.binCapacity(i, j))).set("cells", Value::from(cs));
      bins.push(b);
    }
  ev.set("bins", bins);
  // per cell: the bin the object reports and the spread coordinate, as floor / ceil integers
  std::vector<float> sx = leg.spreadCoordX(tx), sy = leg.spreadCoordY(ty);
  Value cells = Value::array();
  for (int c = 0; c < leg.nbCells(); ++c) {
    Value e = Value::object();
    e.set("bx", leg.cellBinX(c) + 1).set("by", leg.cellBinY(c) + 1);
    e.set("sx0", (long long)std::floor(sx[c] * inv)).set("sx1", (long long)std::ceil(sx[c] * inv));
    e.set("sy0", (long long)std::floor(sy[c] * inv)).set("sy1", (long long)std::ceil(sy[c] * inv));
    cells.push(e);
  }
  Value od = Value::array();
  for (int c = 0; c < leg.nbCells(); ++c) od.push(area(leg.cellDemand(c)));
  ev.set("objDemands", od);
  ev.set("cells", cells).set("totalCap", area(leg.totalCapacity())).set("units", units).set("kshift", ks);
  vt::emit(ev);
}

static void runDensity(int run, const Value &in) {
  std::vector<Rectangle> regions;
  for (size_t k = 0; k < in["regions"].size(); ++k) {
    const Value &q = in["regions"][k];
    regions.emplace_back((int)q[0].asInt(), (int)q[1].asInt(), (int)q[2].asInt(), (int)q[3].asInt());
  }
  const int ks = in.has("kshift") ? (int)in["kshift"].asInt() : 0;
  g_kshift = ks;
  const int K = 1 << ks;
  for (Rectangle &q : regions) {
    q.minX *= K; q.maxX *= K; q.minY *= K; q.maxY *= K;
  }
  DensityGrid grid((int)in["bin"].asInt() * K, regions);
  std::vector<int> dem = in["demands"].ints();
  for (int &dd : dem) dd *= K * K;
  DensityLegalizer::Parameters p;
  const Value &pr = in["params"];
  p.costModel = (LegalizationModel)pr["cost"].asInt();
  p.nbSteps = (int)pr["steps"].asInt();
  p.lineReoptSize = (int)pr["line"].asInt();
  p.lineReoptOverlap = (int)pr["lineO"].asInt();
  p.diagReoptSize = (int)pr["diag"].asInt();
  p.diagReoptOverlap = (int)pr["diagO"].asInt();
  p.squareReoptSize = (int)pr["square"].asInt();
  p.squareReoptOverlap = (int)pr["squareO"].asInt();
  p.unidimensionalTransport = pr["t1d"].asBool() && p.costModel == LegalizationModel::L1;
  p.quadraticPenaltyFactor = pr["quad"].asInt() * 0.001;
  p.coarseningLimit = (double)pr["coarsen"].asInt();
  DensityLegalizer leg(grid, dem, p);
  std::vector<float> tx, ty;
  for (long long v : in["tx4"].longs()) tx.push_back((float)v * 0.25f * (float)(1 << ks));
  for (long long v : in["ty4"].longs()) ty.push_back((float)v * 0.25f * (float)(1 << ks));
  leg.updateCellTargetX(tx);
  leg.updateCellTargetY(ty);
  logHier(run, 0, "init", false, leg, in, tx, ty);
  const Value &ops = in["ops"];
  for (size_t k = 0; k < ops.size(); ++k) {
    std::string op = ops[k].asStr();
    bool skipped = false;
    if (op == "run") leg.run();
    else if (op == "improve") leg.improve();
    else if (op == "refine") { if (leg.levelX() >= 1 || leg.levelY() >= 1) leg.refine(); else skipped = true; }
    else if (op == "refineX") { if (leg.levelX() >= 1) leg.refineX(); else skipped = true; }
    else if (op == "refineY") { if (leg.levelY() >= 1) leg.refineY(); else skipped = true; }
    else if (op == "coarsenX") { if (leg.levelX() + 1 < leg.nbLevelX()) leg.coarsenX(); else skipped = true; }
    else if (op == "coarsenY") { if (leg.levelY() + 1 < leg.nbLevelY()) leg.coarsenY(); else skipped = true; }
    else if (op == "coarsenFully") leg.coarsenFully();
    else if (op == "refineFully") leg.refineFully();
    else if (op.rfind("move:", 0) == 0) {
      // contract-level redistribution from the specification: cell c goes to bin (i, j) of the current view
      int c, bi, bj;
      if (sscanf(op.c_str(), "move:%d:%d:%d", &c, &bi, &bj) == 3 && bi <= leg.nbBinsX() && bj <= leg.nbBinsY()) {
        --c; --bi; --bj;
        int ox = leg.cellBinX(c), oy = leg.cellBinY(c);
        if (ox >= 0 && oy >= 0) {
          std::vector<int> src = leg.binCells(ox, oy);
          src.erase(std::remove(src.begin(), src.end(), c), src.end());
          leg.setBinCells(ox, oy, src);
        }
        std::vector<int> dst = leg.binCells(bi, bj);
        dst.push_back(c);
        leg.setBinCells(bi, bj, dst);
      } else skipped = true;
    }
    else if (op == "badUpdate") {
      // an update of the cell demands that must be refused (one cell would switch between zero and non-zero area): the
      // exception is caught and the placement keeps being used; nothing may have changed
      const int n = leg.nbCells();
      if (n >= 2 && g_kshift == 0) {
        Circuit cc(n);
        std::vector<int> w(n), h(n, 1);
        std::vector<bool> fixed(n, false);
        for (int i = 0; i < n; ++i) w[i] = leg.cellDemand(i) + (i % 2 == 0 ? 1 : 0);   // the earlier cells get other (valid) demands
        int victim = n - 1;                                                          // the last cell flips between zero and non-zero
        if (leg.cellDemand(victim) == 0) w[victim] = 3;
        else fixed[victim] = true;
        for (int i = 0; i < n - 1; ++i)
          if (leg.cellDemand(i) == 0) w[i] = 0;
        cc.setCellWidth(w);
        cc.setCellHeight(h);
        cc.setCellIsFixed(fixed);
        bool threw = false;
        try {
          leg.updateCellDemand(cc);
        } catch (std::exception &) {
          threw = true;
        }
        if (!threw) skipped = true;   // cannot happen on the unchanged code; the state check below still applies
      } else skipped = true;
    }
    else if (op == "retarget") {
      // new targets (rotated), as the global placer does between steps
      std::rotate(tx.begin(), tx.begin() + (tx.size() > 1 ? 1 : 0), tx.end());
      leg.updateCellTargetX(tx);
    }
    logHier(run, (int)k + 1, op, skipped, leg, in, tx, ty);
  }
}

static NetModel buildNetModel(const Value &in, double scale) {
  int n = (int)in["n"].asInt();
  int via = in.has("via") ? (int)in["via"].asInt() : 0;
  const Value &nets = in["nets"];
  if (via == 2) {
    // through the public path of the placer: a Circuit whose fixed pins are fixed cells, weights set with setNetWeights
    int nFixed = 0;
    for (size_t k = 0; k < nets.size(); ++k)
      for (size_t j = 0; j < nets[k]["pins"].size(); ++j)
        if (nets[k]["pins"][j]["c"].asInt() == 0) ++nFixed;
    Circuit c(n + nFixed);
    std::vector<int> w(n + nFixed, 4), h(n + nFixed, 4), x(n + nFixed, 0), y(n + nFixed, 0);
    std::vector<bool> fixed(n + nFixed, false);
    std::vector<float> weights;
    int f = n;
    std::vector<std::vector<int>> nc, nx, ny;
    for (size_t k = 0; k < nets.size(); ++k) {
      std::vector<int> cells, xo, yo;
      const Value &pins = nets[k]["pins"];
      for (size_t j = 0; j < pins.size(); ++j) {
        int cell = (int)pins[j]["c"].asInt();
        int o4 = (int)pins[j]["o4"].asInt();
        if (cell == 0) {
          fixed[f] = true;
          w[f] = 0;
          h[f] = 0;
          x[f] = o4;
          cells.push_back(f++);
          xo.push_back(0);
        } else {
          cells.push_back(cell - 1);
          xo.push_back(o4 + 2);  // centre offset of a cell of width 4 is 2
        }
        yo.push_back(0);
      }
      nc.push_back(cells);
      nx.push_back(xo);
      ny.push_back(yo);
      weights.push_back((float)(nets[k]["w4"].asInt() * 0.25 * scale));
    }
    c.setCellWidth(w);
    c.setCellHeight(h);
    c.setCellX(x);
    c.setCellY(y);
    c.setCellIsFixed(fixed);
    c.setupRows(Rectangle(-4096, 4096, 0, 8), 4);
    for (size_t k = 0; k < nc.size(); ++k) c.addNet(nc[k], nx[k], ny[k]);
    c.setNetWeights(weights);
    NetModel full = NetModel::xTopology(c);
    // the fixed cells are not variables of the instance: rebuild on the n movable cells only (same nets, same order)
    NetModel m(n);
    for (int k = 0; k < full.nbNets(); ++k) {
      std::vector<int> cells;
      std::vector<float> offs;
      for (int j = 0; j < full.nbPins(k); ++j) {
        cells.push_back(full.pinCell(k, j));
        offs.push_back(full.pinOffset(k, j) * 0.25f);
      }
      m.addNet(cells, offs, full.netWeight(k));
    }
    m.check();
    return m;
  }
  NetModel m(n);
  for (size_t k = 0; k < nets.size(); ++k) {
    std::vector<int> cells;
    std::vector<float> offs;
    const Value &pins = nets[k]["pins"];
    float minPin = std::numeric_limits<float>::infinity(), maxPin = -std::numeric_limits<float>::infinity();
    for (size_t j = 0; j < pins.size(); ++j) {
      int cell = (int)pins[j]["c"].asInt() - 1;   // 0 -> -1 = fixed pin
      float off = (float)pins[j]["o4"].asInt() * 0.25f;
      if (via == 1 && cell == -1) {
        minPin = std::min(minPin, off);
        maxPin = std::max(maxPin, off);
        continue;
      }
      cells.push_back(cell);
      offs.push_back(off);
    }
    float weight = (float)(nets[k]["w4"].asInt() * 0.25 * scale);
    if (via == 1) m.addNet(cells, offs, minPin, maxPin, weight);
    else m.addNet(cells, offs, weight);
  }
  m.check();
  return m;
}

// the structure of the model as built (weights x 1024, offsets x 4): compared by TLC with the net list of the instance
static Value modelToJson(const NetModel &m) {
  Value a = Value::array();
  for (int k = 0; k < m.nbNets(); ++k) {
    Value pins = Value::array();
    for (int j = 0; j < m.nbPins(k); ++j) {
      pins.push(Value::object().set("c", (long long)m.pinCell(k, j) + 1).set("o4", (long long)std::llround((double)m.pinOffset(k, j) * 4.0)));
    }
    double w = (double)m.netWeight(k) * 1024.0;
    a.push(Value::object().set("w1024", (long long)std::llround(w)).set("exact", w == std::floor(w)).set("pins", pins));
  }
  return a;
}

static Value bitsOf(const std::vector<float> &v) {
  Value a = Value::array();
  for (float f : v) a.push(vp::floatBits(f));
  return a;
}
static Value fix10(const std::vector<float> &v) {
  Value a = Value::array();
  for (float f : v) a.push((long long)std::llround((double)f * 128.0));
  return a;
}

static void runNetw(int run, const Value &in) {
  int n = (int)in["n"].asInt();
  NetModel::Parameters p;
  p.netModel = (NetModelOption)in["model"].asInt();
  p.tolerance = std::pow(10.0f, -(float)in["tol"].asInt());
  p.maxNbIterations = 1000;
  p.approximationDistance = (float)in["eps4"].asInt() * 0.25f;
  p.penaltyCutoffDistance = (float)in["cut4"].asInt() * 0.25f;
  std::vector<float> tgt, str;
  for (long long v : in["tgt4"].longs()) tgt.push_back((float)v * 0.25f);
  for (long long v : in["str4"].longs()) str.push_back((float)v * 0.25f);
  auto solveAll = [&](double scale, std::vector<float> &x0, std::vector<float> &x1, std::vector<float> &x2) {
    NetModel m = buildNetModel(in, scale);
    x0 = m.solveStar(p);
    x1 = m.solve(x0, p);
    std::vector<float> s = str;
    for (float &v : s) v = (float)(v * scale);
    x2 = m.solveWithPenalty(x1, tgt, s, p);
  };
  std::vector<float> b0, b1, b2;
  solveAll(1.0, b0, b1, b2);
  long long via = in.has("via") ? in["via"].asInt() : 0;
  {
    Value bv = vt::ev("NetBuild");
    bv.set("run", run).set("via", via).set("nets", in["nets"]).set("built", modelToJson(buildNetModel(in, 1.0)));
    bv.set("built8", modelToJson(buildNetModel(in, 0.125)));   // all weights / 8: still multiples of 1/1024
    vt::emit(bv);
  }
  Value ev = vt::ev("NetSolve");
  ev.set("run", run).set("n", n).set("nets", in["nets"]).set("x0", fix10(b0)).set("tol", in["tol"]).set("via", via);
  bool finite = true;
  for (float f : b0) finite = finite && std::isfinite(f) && std::fabs(f) < 1e4;
  ev.set("finite", finite);
  vt::emit(ev);
  static const int ks[] = {-24, -16, -10, -3, -2, -1, 1, 2, 3, 4, 10, 20};
  for (int k : ks) {
    std::vector<float> s0, s1, s2;
    solveAll(std::ldexp(1.0, k), s0, s1, s2);
    Value e = vt::ev("NetScale");
    e.set("run", run).set("k", k).set("dyadic", true).set("model", in["model"]);
    e.set("b0", bitsOf(b0)).set("s0", bitsOf(s0)).set("b1", bitsOf(b1)).set("s1", bitsOf(s1)).set("b2", bitsOf(b2)).set("s2", bitsOf(s2));
    vt::emit(e);
  }
  {
    // a cell that sits exactly on its target is still pulled with strength / cutoff: the penalised solve from the placement T with
    // targets T and with targets T + 1/64 (both closer than every cutoff used here) differ by at most that shift
    NetModel m = buildNetModel(in, 1.0);
    std::vector<float> near = tgt;
    for (float &v : near) v += 1.0f / 64.0f;
    std::vector<float> yEq = m.solveWithPenalty(tgt, tgt, str, p), yNear = m.solveWithPenalty(tgt, near, str, p);
    Value e = vt::ev("NetTie");
    e.set("run", run).set("model", in["model"]).set("yEq", fix10(yEq)).set("yNear", fix10(yNear));
    vt::emit(e);
  }
  for (double f : {2.5, 7.0}) {
    std::vector<float> s0, s1, s2;
    solveAll(f, s0, s1, s2);
    Value e = vt::ev("NetScale");
    e.set("run", run).set("k", (long long)std::llround(f * 2)).set("dyadic", false).set("model", in["model"]);
    e.set("b0", fix10(b0)).set("s0", fix10(s0)).set("b1", fix10(b1)).set("s1", fix10(s1)).set("b2", fix10(b2)).set("s2", fix10(s2));
    vt::emit(e);
  }
}

static void execute(const std::string &scen, int run, const Value &in) {
  if (scen == "netw") {
    runNetw(run, in);
    return;
  }
  if (scen == "density") {
    runDensity(run, in);
    return;
  }
  if (scen == "rowhist") runRowHist(run, in);
  else if (scen == "transport") runTransport(run, in);
  else if (scen == "t1d") runT1d(run, in);
  else _exit(2);
}

int main(int argc, char **argv) {
  for (int i = 1; i < argc; ++i) {
    const char *eq = strchr(argv[i], '=');
    if (eq) g_args[std::string(argv[i], eq - argv[i])] = eq + 1;
  }
  vt::openTrace(args("out", "/dev/stdout"));
  std::string errPath = args("out", "/tmp/record_algo") + ".stderr";
  int timeout = (int)argi("timeout", 60);
  if (g_args.count("replay") || g_args.count("cases")) {
    // replay=: one AlgoBegin line;  cases=: many instance lines {"scen":..,"inst":..} (TLC-emitted instances).
    // Instances are executed in forked chunks (fork under ASan is slow); a chunk whose child does not end normally is
    // discarded and re-executed one instance per child so that the fate is attributed to the right instance.
    std::ifstream f(g_args.count("replay") ? g_args["replay"] : g_args["cases"]);
    std::string line;
    std::vector<Value> insts;
    while (std::getline(f, line)) {
      Value b;
      if (!vj::parseLine(line, b)) continue;
      if (!b.has("inst")) continue;
      if (!b.has("run")) b.set("run", (long long)insts.size());
      insts.push_back(b);
    }
    size_t chunk = (size_t)argi("chunk", g_args.count("replay") ? 1 : 200);
    std::string mainOut = args("out", "/dev/stdout");
    std::string tmpOut = mainOut + ".chunk";
    int mainFd = vt::g_fd;
    auto one = [&](const Value &b) {
      int run = (int)b["run"].asInt();
      std::string scen = b["scen"].asStr();
      Value begin = vt::ev("AlgoBegin");
      begin.set("run", run).set("scen", scen).set("inst", b["inst"]);
      vt::emit(begin);
      vt::forked(run, timeout, errPath, [&] { execute(scen, run, b["inst"]); }, scen.c_str());
    };
    for (size_t k = 0; k < insts.size(); k += chunk) {
      size_t e = std::min(insts.size(), k + chunk);
      if (e - k == 1) {
        one(insts[k]);
        continue;
      }
      // whole chunk in one child, writing to a side file that is appended only if the child ends normally
      int side = ::open(tmpOut.c_str(), O_WRONLY | O_CREAT | O_TRUNC | O_APPEND, 0644);
      vt::g_fd = side;
      bool ok = vt::forked(-1, timeout * 4, errPath, [&] {
        for (size_t j = k; j < e; ++j) {
          int run = (int)insts[j]["run"].asInt();
          std::string scen = insts[j]["scen"].asStr();
          Value begin = vt::ev("AlgoBegin");
          begin.set("run", run).set("scen", scen).set("inst", insts[j]["inst"]);
          vt::emit(begin);
          execute(scen, run, insts[j]["inst"]);
        }
      }, "chunk");
      ::close(side);
      vt::g_fd = mainFd;
      if (ok) {
        std::ifstream in(tmpOut, std::ios::binary);
        std::string buf((std::istreambuf_iterator<char>(in)), std::istreambuf_iterator<char>());
        size_t off = 0;
        while (off < buf.size()) {
          ssize_t w = ::write(mainFd, buf.data() + off, buf.size() - off);
          if (w <= 0) break;
          off += (size_t)w;
        }
      } else {
        for (size_t j = k; j < e; ++j) one(insts[j]);
      }
    }
    unlink(tmpOut.c_str());
    unlink(errPath.c_str());
    return 0;
  }
  std::string scen = args("scen", "rowhist");
  long long seed = argi("seed", 1), first = argi("first", 0), runs = argi("runs", 10);
  for (long long k = first; k < first + runs; ++k) {
    vg::Rng r((uint64_t)seed * 1000003ULL + (uint64_t)k);
    Value in = scen == "rowhist" ? genRowHist(r) : scen == "transport" ? genTransport(r, argi("big", 0)) : scen == "density" ? (argi("big", 0) ? genDensityBig(r) : genDensity(r)) : scen == "netw" ? genNetw(r) : genT1d(r);
    Value begin = vt::ev("AlgoBegin");
    begin.set("run", (long long)k).set("scen", scen).set("inst", in);
    vt::emit(begin);
    vt::forked((int)k, timeout, errPath, [&] { execute(scen, (int)k, in); }, scen.c_str());
  }
  unlink(errPath.c_str());
  return 0;
}
