// Code -> spec recorder for the busy-circuit protocol (C10) and the refusal of invalid inputs (C19).
//   scen=proto   : fault enumeration: per instance and stage, a clean run counts the callbacks N, then one execution per
//                  k in 0..N-1 throws from the k-th callback; structural setters are attempted inside callbacks, after every
//                  end of a call (return, callback exception, infeasible legalization, rejected parameters), followed by a
//                  further placement call.
//   scen=invalid : one invalid-input attempt per run (enumerated by index): efforts outside 1..9, every parameter field
//                  below/at/above each bound of its check, every vector setter with a wrong length, nets with bad pins.
#include <cstring>
#include <fstream>
#include <map>

#include "gen.hpp"
#include "project.hpp"
#include "trace.hpp"

using namespace coloquinte;
using vj::Value;

static std::map<std::string, std::string> g_args;
static long long argi(const char *k, long long d) { return g_args.count(k) ? atoll(g_args[k].c_str()) : d; }
static std::string args(const char *k, const char *d) { return g_args.count(k) ? g_args[k] : d; }

static const char *stepName(PlacementStep s) {
  switch (s) {
    case PlacementStep::LowerBound: return "LowerBound";
    case PlacementStep::UpperBound: return "UpperBound";
    case PlacementStep::Detailed: return "Detailed";
    case PlacementStep::PenaltyUpdate: return "PenaltyUpdate";
  }
  return "?";
}

struct HarnessThrow : std::runtime_error {
  HarnessThrow() : std::runtime_error("harness callback exception") {}
};

// ---- structural setters with arguments that would change the circuit
static const char *kStructural[] = {"addNet", "setNets", "setRows", "setupRows", "setCellIsFixed", "setCellIsObstruction", "setCellRowPolarity"};

static void applySetter(Circuit &c, const std::string &kind) {
  int n = c.nbCells();
  if (kind == "addNet") {
    c.addNet({0, n - 1}, {0, 1}, {0, 0}, 2.0f);
  } else if (kind == "setNets") {
    // drop the last net (or create one if there is none)
    std::vector<int> lim = c.netLimits_, cells = c.pinCells_, dx = c.pinXOffsets_, dy = c.pinYOffsets_;
    if (lim.size() > 1) {
      lim.pop_back();
      cells.resize(lim.back());
      dx.resize(lim.back());
      dy.resize(lim.back());
    } else {
      lim.push_back(1);
      cells.push_back(0);
      dx.push_back(0);
      dy.push_back(0);
    }
    c.setNets(lim, cells, dx, dy);
  } else if (kind == "setRows") {
    std::vector<Row> rows = c.rows();
    std::reverse(rows.begin(), rows.end());
    if (rows.size() == 1) rows[0].orientation = rows[0].orientation == CellOrientation::N ? CellOrientation::FS : CellOrientation::N;
    c.setRows(rows);
  } else if (kind == "setupRows") {
    Rectangle a = c.computePlacementArea();
    c.setupRows(Rectangle(a.minX, a.maxX + c.rowHeight(), a.minY, a.maxY), c.rowHeight(), true, false);
  } else if (kind == "setCellIsFixed") {
    std::vector<bool> f = c.cellIsFixed();
    // toggle a fixed cell if there is one (keeps at least the movable cells movable)
    int idx = -1;
    for (int i = 0; i < n; ++i)
      if (f[i]) idx = i;
    if (idx < 0) idx = n - 1;
    f[idx] = !f[idx];
    c.setCellIsFixed(f);
  } else if (kind == "setCellIsObstruction") {
    std::vector<bool> f = c.cellIsObstruction();
    f[0] = !f[0];
    c.setCellIsObstruction(f);
  } else if (kind == "setCellRowPolarity") {
    std::vector<CellRowPolarity> p = c.cellRowPolarity();
    p[n - 1] = p[n - 1] == CellRowPolarity::ANY ? CellRowPolarity::SAME : CellRowPolarity::ANY;
    c.setCellRowPolarity(p);
  }
}

static void attemptSetter(int run, Circuit &c, const char *obj, const std::string &kind) {
  std::string outcome = "ok";
  std::string what;
  try {
    applySetter(c, kind);
  } catch (std::exception &ex) {
    what = ex.what();
    outcome = what.find("not allowed when the circuit is being placed") != std::string::npos ? "refused" : "error";
  }
  Value e = vt::ev("Setter");
  e.set("run", run).set("obj", obj).set("kind", kind).set("valid", true).set("outcome", outcome).set("what", what).set("circ", vp::circuitToJson(c));
  vt::emit(e);
}

static void allSetters(int run, Circuit &c, const char *obj) {
  for (const char *k : kStructural) attemptSetter(run, c, obj, k);
}

// One placement call; throwAt = index of the callback that throws (-1 never); setters are attempted inside the first two
// callbacks and inside the throwing one.  Returns the number of callbacks seen.
static std::optional<Circuit> g_snap;   // a copy of the circuit taken by the callback (first callback of a call), if requested
static bool g_takeSnap = false;
static int call(int run, Circuit &c, const char *obj, const std::string &stage, const ColoquinteParameters &p, int throwAt, bool settersInCb) {
  Value b = vt::ev("Begin");
  b.set("run", run).set("obj", obj).set("stage", stage).set("cb", true);
  vt::emit(b);
  int idx = 0;
  PlacementCallback cb = [&](PlacementStep s) {
    if (idx >= 1000) {
      // a call that never stops calling back: say so once, then stop logging (see calls.hpp)
      if (idx == 1000) {
        Value fl = vt::ev("CbFlood");
        fl.set("run", run).set("obj", obj).set("idx", idx);
        vt::emit(fl);
      }
      ++idx;
      return;
    }
    Value e = vt::ev("Cb");
    e.set("run", run).set("obj", obj).set("step", stepName(s)).set("idx", idx).set("circ", vp::circuitToJson(c)).set("wl", c.hpwl());
    vt::emit(e);
    if (g_takeSnap && idx == 0) g_snap = c;
    if (settersInCb && (idx < 2 || idx == throwAt)) allSetters(run, c, obj);
    if (idx == throwAt) {
      Value t = vt::ev("CbThrow");
      t.set("run", run).set("obj", obj).set("idx", idx);
      vt::emit(t);
      ++idx;
      throw HarnessThrow();
    }
    ++idx;
  };
  try {
    if (stage == "global") c.placeGlobal(p, cb);
    else if (stage == "legalize") c.legalize(p, cb);
    else c.placeDetailed(p, cb);
  } catch (std::exception &ex) {
    Value e = vt::ev("EndThrow");
    e.set("run", run).set("obj", obj).set("what", ex.what()).set("circ", vp::circuitToJson(c)).set("wl", c.hpwl());
    vt::emit(e);
    return idx;
  }
  Value e = vt::ev("EndReturn");
  e.set("run", run).set("obj", obj).set("circ", vp::circuitToJson(c)).set("wl", c.hpwl());
  vt::emit(e);
  return idx;
}

static ColoquinteParameters smallParams(vg::Rng &r) {
  ColoquinteParameters p((int)r.in(1, 9), (int)r.in(0, 50));
  p.detailed.nbPasses = (int)r.in(1, 2);
  p.detailed.reorderingMaxNbCells = (int)r.in(1, 3);
  p.detailed.reorderingNbRows = (int)r.in(1, 2);
  p.global.maxNbSteps = (int)r.in(1, 4);
  p.global.nbInitialSteps = 0;
  p.global.gapTolerance = 0.0;
  p.global.distanceTolerance = 0.0;
  p.global.penaltyUpdateDistance = 100.0;
  return p;
}

static void protoRun(int run, const Circuit &base, vg::Rng &r) {
  ColoquinteParameters p = smallParams(r);
  std::vector<std::string> stages = {"legalize", "detailed", "global"};
  std::string stage = stages[run % 3];
  // (a) clean run: number of callbacks
  int n;
  {
    Circuit a = base;
    n = call(run, a, "A", stage, p, -1, false);
    allSetters(run, a, "A");
  }
  // (b) one execution per callback index as the point where the callback throws
  for (int k = 0; k < n; ++k) {
    Circuit b = base;
    Value rb = vt::ev("Rebase");
    rb.set("run", run).set("circ", vp::circuitToJson(b)).set("wl", b.hpwl());
    vt::emit(rb);
    g_takeSnap = (k == 0);
    g_snap.reset();
    call(run, b, "B", stage, p, k, true);
    g_takeSnap = false;
    allSetters(run, b, "B");
    // a further placement call must be allowed and behave
    ColoquinteParameters q = p;
    call(run, b, "B", "legalize", q, -1, false);
    if (g_snap) {
      // a copy of the circuit taken inside the callback: once a placement call on the copy has ended, the copy accepts modifications
      Circuit snap = *g_snap;
      Value rb2 = vt::ev("Rebase");
      rb2.set("run", run).set("circ", vp::circuitToJson(snap)).set("wl", snap.hpwl());
      vt::emit(rb2);
      call(run, snap, "D", "legalize", q, -1, false);
      allSetters(run, snap, "D");
      g_snap.reset();
    }
  }
  // (c) rejected parameters
  {
    Circuit c = base;
    Value rb = vt::ev("Rebase");
    rb.set("run", run).set("circ", vp::circuitToJson(c)).set("wl", c.hpwl());
    vt::emit(rb);
    ColoquinteParameters bad = p;
    int which = (int)r.in(0, 3);
    if (which == 0) bad.legalization.orderingWidth = 5.0;
    else if (which == 1) bad.detailed.nbPasses = -1;
    else if (which == 2) bad.global.maxNbSteps = -3;
    else bad.global.roughLegalization.binSize = 0.5;
    Value note = vt::ev("ExpectReject");
    note.set("run", run);
    vt::emit(note);
    call(run, c, "C", stage, bad, -1, true);
    allSetters(run, c, "C");
    call(run, c, "C", "legalize", p, -1, false);
  }
}

// ------------------------------------------------------------------------------------------------ invalid inputs (C19)
struct Field {
  const char *name;
  double lo, hi;          // bounds of the accepted range as documented by the check's messages; NAN = unbounded
  bool loIncl, hiIncl;
  bool integer;
  bool loAny = false, hiAny = false;  // bound compared against an inexact float literal: behaviour exactly at the bound is not specified
};
// The table is the harness's transcription of the documented ranges (parameters.cpp check() messages / coloquinte.hpp).
static const Field kFields[] = {
    {"penalty.cutoffDistance", 1.0e-6, NAN, true, false, false},
    {"penalty.cutoffDistanceUpdateFactor", 0.8, 1.2, true, true, false},
    {"penalty.areaExponent", 0.49, 1.01, true, true, false},
    {"penalty.initialValue", 0.0, NAN, false, false, false},
    {"penalty.updateFactor", 1.0, 2.0, false, false, false},
    {"penalty.targetBlending", 0.1, 1.1, true, true, false, true, true},
    {"continuousModel.approximationDistance", 1.0e-6, 1.0e3, true, true, false},
    {"continuousModel.approximationDistanceUpdateFactor", 0.8, 1.2, true, true, false},
    {"continuousModel.maxNbConjugateGradientSteps", 1, NAN, true, false, true},
    {"continuousModel.conjugateGradientErrorTolerance", 1.0e-8, 1.0, true, true, false},
    {"roughLegalization.nbSteps", 0, NAN, true, false, true},
    {"roughLegalization.binSize", 1.0, 25.0, true, true, false},
    {"roughLegalization.lineReoptSize", 1, 64, true, true, true},
    {"roughLegalization.diagReoptSize", 1, 64, true, true, true},
    {"roughLegalization.squareReoptSize", 1, 8, true, true, true},
    {"roughLegalization.lineReoptOverlap", 1, NAN, true, false, true},
    {"roughLegalization.diagReoptOverlap", 1, NAN, true, false, true},
    {"roughLegalization.squareReoptOverlap", 1, NAN, true, false, true},
    {"roughLegalization.quadraticPenalty", 0.0, 1.0, true, true, false},
    {"roughLegalization.targetBlending", -0.1, 0.9, true, true, false, false, true},
    {"global.maxNbSteps", 1, NAN, true, false, true},  // must exceed nbInitialSteps (0 here)
    {"global.nbInitialSteps", 0, NAN, true, false, true},
    {"global.nbStepsBeforeRoughLegalization", 1, NAN, true, false, true},
    {"global.gapTolerance", 0.0, 1.0, true, true, false},
    {"global.distanceTolerance", 0.0, NAN, true, false, false},
    {"global.exportBlending", -0.5, 1.5, true, true, false},
    {"global.noise", 0.0, 2.0, true, true, false},
    {"global.penaltyUpdateDistance", 0.0, NAN, false, false, false},
    {"global.penaltyUpdateBackoff", 1.0, NAN, true, false, false},
    {"legalization.orderingWidth", -1.0, 2.0, true, true, false},
    {"legalization.orderingY", -0.2, 0.2, true, true, false},
    {"detailed.nbPasses", 0, NAN, true, false, true},
    {"detailed.localSearchNbNeighbours", 0, NAN, true, false, true},
    {"detailed.localSearchNbRows", 0, NAN, true, false, true},
    {"detailed.shiftNbRows", 1, NAN, true, false, true},
    {"detailed.shiftMaxNbCells", 0, NAN, true, false, true},
    {"detailed.reorderingNbRows", 1, NAN, true, false, true},
    {"detailed.reorderingMaxNbCells", 0, NAN, true, false, true},
};
static const int kNbFields = sizeof(kFields) / sizeof(kFields[0]);

static void setField(ColoquinteParameters &p, const std::string &n, double v) {
  auto &g = p.global;
  if (n == "penalty.cutoffDistance") g.penalty.cutoffDistance = v;
  else if (n == "penalty.cutoffDistanceUpdateFactor") g.penalty.cutoffDistanceUpdateFactor = v;
  else if (n == "penalty.areaExponent") g.penalty.areaExponent = v;
  else if (n == "penalty.initialValue") g.penalty.initialValue = v;
  else if (n == "penalty.updateFactor") g.penalty.updateFactor = v;
  else if (n == "penalty.targetBlending") g.penalty.targetBlending = v;
  else if (n == "continuousModel.approximationDistance") g.continuousModel.approximationDistance = v;
  else if (n == "continuousModel.approximationDistanceUpdateFactor") g.continuousModel.approximationDistanceUpdateFactor = v;
  else if (n == "continuousModel.maxNbConjugateGradientSteps") g.continuousModel.maxNbConjugateGradientSteps = (int)v;
  else if (n == "continuousModel.conjugateGradientErrorTolerance") g.continuousModel.conjugateGradientErrorTolerance = v;
  else if (n == "roughLegalization.nbSteps") g.roughLegalization.nbSteps = (int)v;
  else if (n == "roughLegalization.binSize") g.roughLegalization.binSize = v;
  else if (n == "roughLegalization.lineReoptSize") { g.roughLegalization.lineReoptSize = (int)v; g.roughLegalization.lineReoptOverlap = 1; if ((int)v == 2) g.roughLegalization.lineReoptOverlap = 1; }
  else if (n == "roughLegalization.diagReoptSize") { g.roughLegalization.diagReoptSize = (int)v; g.roughLegalization.diagReoptOverlap = 1; }
  else if (n == "roughLegalization.squareReoptSize") { g.roughLegalization.squareReoptSize = (int)v; g.roughLegalization.squareReoptOverlap = 1; }
  else if (n == "roughLegalization.lineReoptOverlap") { g.roughLegalization.lineReoptSize = 8; g.roughLegalization.lineReoptOverlap = (int)v; }
  else if (n == "roughLegalization.diagReoptOverlap") { g.roughLegalization.diagReoptSize = 8; g.roughLegalization.diagReoptOverlap = (int)v; }
  else if (n == "roughLegalization.squareReoptOverlap") { g.roughLegalization.squareReoptSize = 8; g.roughLegalization.squareReoptOverlap = (int)v; }
  else if (n == "roughLegalization.quadraticPenalty") g.roughLegalization.quadraticPenalty = v;
  else if (n == "roughLegalization.targetBlending") g.roughLegalization.targetBlending = v;
  else if (n == "global.maxNbSteps") { g.maxNbSteps = (int)v; g.nbInitialSteps = std::min(g.nbInitialSteps, std::max(0, (int)v - 1)); }
  else if (n == "global.nbInitialSteps") g.nbInitialSteps = (int)v;
  else if (n == "global.nbStepsBeforeRoughLegalization") g.nbStepsBeforeRoughLegalization = (int)v;
  else if (n == "global.gapTolerance") g.gapTolerance = v;
  else if (n == "global.distanceTolerance") g.distanceTolerance = v;
  else if (n == "global.exportBlending") g.exportBlending = v;
  else if (n == "global.noise") g.noise = v;
  else if (n == "global.penaltyUpdateDistance") g.penaltyUpdateDistance = v;
  else if (n == "global.penaltyUpdateBackoff") g.penaltyUpdateBackoff = v;
  else if (n == "legalization.orderingWidth") p.legalization.orderingWidth = v;
  else if (n == "legalization.orderingY") p.legalization.orderingY = v;
  else if (n == "detailed.nbPasses") p.detailed.nbPasses = (int)v;
  else if (n == "detailed.localSearchNbNeighbours") p.detailed.localSearchNbNeighbours = (int)v;
  else if (n == "detailed.localSearchNbRows") p.detailed.localSearchNbRows = (int)v;
  else if (n == "detailed.shiftNbRows") p.detailed.shiftNbRows = (int)v;
  else if (n == "detailed.shiftMaxNbCells") p.detailed.shiftMaxNbCells = (int)v;
  else if (n == "detailed.reorderingNbRows") p.detailed.reorderingNbRows = (int)v;
  else if (n == "detailed.reorderingMaxNbCells") p.detailed.reorderingMaxNbCells = (int)v;
  else throw std::runtime_error("harness: unknown field " + n);
}

// value for (field, bound, relation); "inside" values are strictly inside, "below"/"above" clearly outside
static double pickValue(const Field &f, bool lowBound, const std::string &rel) {
  double b = lowBound ? f.lo : f.hi;
  double span = std::isnan(f.lo) || std::isnan(f.hi) ? std::max(1.0, std::fabs(b)) : (f.hi - f.lo);
  double step = f.integer ? 1.0 : std::max(span * 0.05, std::fabs(b) * 0.5 + 1e-9);
  if (!f.integer && std::fabs(b) < 1e-3 && b > 0) step = b * 0.5;  // tiny positive bounds: halve / double
  if (rel == "at") return b;
  // further probes outside the range: by a hair, by a lot, and exactly zero (NAN = not applicable for this field / bound)
  if (rel == "near") {
    if (f.integer) return NAN;
    double h = std::max(std::fabs(b) * 1e-3, 1e-7);
    return lowBound ? b - h : b + h;
  }
  if (rel == "far") {
    double h = f.integer ? 1000.0 : 1000.0 * (std::fabs(b) + 1.0);
    return lowBound ? b - h : b + h;
  }
  if (rel == "zero") {
    bool zeroOutside = lowBound ? (0.0 < f.lo || (0.0 == f.lo && !f.loIncl)) : (0.0 > f.hi || (0.0 == f.hi && !f.hiIncl));
    return zeroOutside ? 0.0 : NAN;
  }
  bool outward = rel == "outside";
  if (lowBound) return outward ? b - step : b + (f.integer ? 1.0 : std::min(step, span * 0.3));
  return outward ? b + step : b - (f.integer ? 1.0 : std::min(step, span * 0.3));
}

// A circuit every placement stage handles and visibly changes: cells of one row height piled on one spot, rows with
// plenty of room, two nets.  Varies with the attempt number.
static Circuit pileCircuit(int k) {
  int n = 5 + k % 4;  // the last cell is fixed and anchors both nets (no floating netlist)
  Circuit c(n);
  std::vector<int> w(n), h(n, 10), x(n, 13 + k % 7), y(n, 3 + k % 5);
  std::vector<bool> fixed(n, false);
  for (int i = 0; i < n; ++i) w[i] = 2 + (i + k) % 4;
  fixed[n - 1] = true;
  w[n - 1] = 4;
  x[n - 1] = 44;
  y[n - 1] = 10;
  c.setCellWidth(w);
  c.setCellHeight(h);
  c.setCellX(x);
  c.setCellY(y);
  c.setCellIsFixed(fixed);
  c.setupRows(Rectangle(0, 60, 0, 30), 10);
  c.addNet({0, 1, 2, n - 1}, {0, 0, 0, 1}, {0, 0, 0, 1});
  c.addNet({1, 2, 3, n - 1}, {1, 1, 1, 2}, {2, 2, 2, 3});
  return c;
}

static void invalidRun(int run, long long attempt, const Circuit &base) {
  // attempt index space: [0,49) efforts -16..32; [49,59) random 32-bit efforts; then fields x {lo,hi} x {outside,at,inside};
  // then setters with wrong lengths; then nets.
  Circuit c = base;
  int n = c.nbCells();
  Value before = vp::circuitToJson(c);
  long long a = attempt;
  auto emitSetter = [&](const std::string &kind, bool valid, const std::string &outcome, const std::string &what) {
    Value e = vt::ev("Setter");
    e.set("run", run).set("obj", "A").set("kind", kind).set("valid", valid).set("outcome", outcome).set("what", what).set("circ", vp::circuitToJson(c));
    vt::emit(e);
  };
  if (a < 59 + 48) {
    int effort;
    std::string which = "ColoquinteParameters";
    if (a < 49) effort = (int)a - 16;
    else if (a < 59) {
      effort = (int)(vg::Rng((uint64_t)a * 7 + 1).u() & 0xffffffffu);
      if (effort >= 1 && effort <= 9) effort += 100;
    } else {
      static const char *names[] = {"GlobalPlacerParameters", "DetailedPlacerParameters", "LegalizationParameters"};
      which = names[(a - 59) / 16];
      effort = (int)((a - 59) % 16) - 3;
    }
    std::string outcome = "ok";
    bool checks = false;
    try {
      if (which == "ColoquinteParameters") {
        ColoquinteParameters p(effort);
        try { p.check(); checks = true; } catch (std::exception &) {}
      } else if (which == "GlobalPlacerParameters") {
        GlobalPlacerParameters p(effort);
        try { p.check(); checks = true; } catch (std::exception &) {}
      } else if (which == "DetailedPlacerParameters") {
        DetailedPlacerParameters p(effort);
        try { p.check(); checks = true; } catch (std::exception &) {}
      } else {
        LegalizationParameters p(effort);
        try { p.check(); checks = true; } catch (std::exception &) {}
      }
    } catch (std::exception &ex) {
      outcome = "error";
    }
    Value e = vt::ev("ParamsCtor");
    e.set("run", run).set("which", which).set("effort", effort).set("outcome", outcome).set("passes", checks);
    vt::emit(e);
    return;
  }
  a -= 59 + 48;
  if (a < kNbFields * 12) {
    const Field &f = kFields[a / 12];
    bool low = (a % 12) < 6;
    static const char *rels[] = {"outside", "at", "inside", "near", "far", "zero"};
    std::string rel = rels[a % 6];
    double b = low ? f.lo : f.hi;
    Value e = vt::ev("ParamCheck");
    e.set("run", run).set("field", f.name).set("bound", low ? "lo" : "hi").set("rel", rel);
    e.set("incl", low ? f.loIncl : f.hiIncl).set("bounded", !std::isnan(b));
    if (rel == "at" && (low ? f.loAny : f.hiAny)) b = NAN;  // unspecified exactly at this bound
    if (std::isnan(b)) {
      e.set("outcome", "skip").set("rejectedCall", false).set("sameAfter", true);
      vt::emit(e);
      return;
    }
    ColoquinteParameters p(3, 1);
    p.global.maxNbSteps = 2;
    double v = pickValue(f, low, rel);
    if (std::isnan(v)) {
      e.set("outcome", "skip").set("rejectedCall", false).set("sameAfter", true);
      vt::emit(e);
      return;
    }
    setField(p, f.name, v);
    std::string outcome = "ok";
    try {
      p.check();
    } catch (std::exception &) {
      outcome = "error";
    }
    e.set("outcome", outcome).set("value1000", (long long)std::llround(v * 1000.0));
    // every placement entry point with these parameters: rejected before any work iff the check rejects them.  The calls run
    // on a circuit on which the same call with valid parameters provably succeeds and moves cells (control), so that
    // "refused" and "unchanged" cannot hold by accident (an infeasible or already-placed circuit).
    Circuit pile = pileCircuit(run);
    Value pileBefore = vp::circuitToJson(pile);
    ColoquinteParameters good(3, 1);
    good.global.maxNbSteps = 2;
    bool allRejected = true, allSame = true;
    Value stages = Value::array();
    static const char *stageNames[] = {"global", "legalize", "detailed"};
    for (int st = 0; st < 3 && outcome == "error"; ++st) {
      auto invoke = [&](Circuit &cc, const ColoquinteParameters &pp, const PlacementCallback &cb) {
        if (st == 0) cc.placeGlobal(pp, cb);
        else if (st == 1) cc.legalize(pp, cb);
        else cc.placeDetailed(pp, cb);
      };
      Circuit ctl = pile;
      int ctlCbs = 0;
      bool ctlOk = true;
      try {
        invoke(ctl, good, [&](PlacementStep) { ++ctlCbs; });
      } catch (std::exception &) {
        ctlOk = false;
      }
      bool ctlMoved = vp::circuitToJson(ctl).str() != pileBefore.str();
      Circuit sub = pile;
      bool threw = false;
      int cbs = 0;
      try {
        invoke(sub, p, [&](PlacementStep) { ++cbs; });
      } catch (std::exception &) {
        threw = true;
      }
      bool same = vp::circuitToJson(sub).str() == pileBefore.str();
      Value sv = Value::object();
      sv.set("stage", stageNames[st]).set("controlOk", ctlOk && ctlCbs > 0).set("controlMoved", ctlMoved);
      sv.set("rejected", threw && cbs == 0).set("same", same).set("callbacks", cbs);
      stages.push(sv);
      allRejected = allRejected && threw && cbs == 0;
      allSame = allSame && same;
    }
    e.set("stages", stages);
    e.set("rejectedCall", allRejected);
    e.set("sameAfter", allSame);
    vt::emit(e);
    if (outcome == "error") allSetters(run, c, "A");
    return;
  }
  a -= kNbFields * 12;
  static const char *vecSetters[] = {"setCellX", "setCellY", "setCellIsFixed", "setCellIsObstruction", "setCellOrientation", "setCellRowPolarity",
                                     "setCellWidth", "setCellHeight", "setSolution", "setNetWeights", "expandCellsByFactor"};
  const int nvs = 11;
  if (a < nvs * 3) {
    std::string kind = vecSetters[a / 3];
    int which = (int)(a % 3);
    size_t ref = kind == "setNetWeights" ? (size_t)c.nbNets() : (size_t)n;
    size_t len = which == 0 ? (ref == 0 ? 2 : ref - 1) : which == 1 ? ref + 1 : (ref == 0 ? 1 : 0);
    std::string outcome = "ok", what;
    try {
      if (kind == "setCellX") c.setCellX(std::vector<int>(len, 1));
      else if (kind == "setCellY") c.setCellY(std::vector<int>(len, 1));
      else if (kind == "setCellIsFixed") c.setCellIsFixed(std::vector<bool>(len, true));
      else if (kind == "setCellIsObstruction") c.setCellIsObstruction(std::vector<bool>(len, false));
      else if (kind == "setCellOrientation") c.setCellOrientation(std::vector<CellOrientation>(len, CellOrientation::S));
      else if (kind == "setCellRowPolarity") c.setCellRowPolarity(std::vector<CellRowPolarity>(len, CellRowPolarity::SAME));
      else if (kind == "setCellWidth") c.setCellWidth(std::vector<int>(len, 3));
      else if (kind == "setCellHeight") c.setCellHeight(std::vector<int>(len, 3));
      else if (kind == "setSolution") c.setSolution(PlacementSolution(len, CellPlacement(1, 1, CellOrientation::N)));
      else if (kind == "setNetWeights") c.setNetWeights(std::vector<float>(len, 2.0f));
      else if (kind == "expandCellsByFactor") c.expandCellsByFactor(std::vector<float>(len, 1.5f));
    } catch (std::exception &ex) {
      outcome = "error";
      what = ex.what();
    }
    emitSetter(kind, false, outcome, what);
    return;
  }
  a -= nvs * 3;
  // nets: pins naming non-existent cells, inconsistent lengths (addNet and setNets)
  std::string kind, outcome = "ok", what;
  try {
    switch ((int)a) {
      case 0: kind = "addNet"; c.addNet({0, -1}, {0, 0}, {0, 0}); break;
      case 1: kind = "addNet"; c.addNet({n, 0}, {0, 0}, {0, 0}); break;
      case 2: kind = "addNet"; c.addNet({0, n + 7}, {0, 0}, {0, 0}); break;
      case 3: kind = "addNet"; c.addNet({0, 1}, {0}, {0, 0}); break;
      case 4: kind = "addNet"; c.addNet({0, 1}, {0, 0}, {0, 0, 0}); break;
      case 5: kind = "setNets"; c.setNets({0, 2}, {0, n}, {0, 0}, {0, 0}); break;
      case 6: kind = "setNets"; c.setNets({0, 2}, {0, -1}, {0, 0}, {0, 0}); break;
      case 7: kind = "setNets"; c.setNets({0, 2}, {0, 1}, {0}, {0, 0}); break;
      case 8: kind = "setNets"; c.setNets({0, 3}, {0, 1}, {0, 0}, {0, 0}); break;
      case 9: kind = "setNets"; c.setNets({1, 2}, {0, 1}, {0, 0}, {0, 0}); break;
      case 10: kind = "setNets"; c.setNets({0, 2}, {0, 1}, {0, 0}, {0, 0}, {1.0f, 2.0f, 3.0f}); break;
      case 11: kind = "setNets"; c.setNets({}, {}, {}, {}); break;
      default: return;
    }
  } catch (std::exception &ex) {
    outcome = "error";
    what = ex.what();
  }
  emitSetter(kind, false, outcome, what);
  // whatever was accepted must not corrupt later use
  if (outcome == "ok") {
    Value e = vt::ev("Begin");
    e.set("run", run).set("obj", "A").set("stage", "legalize").set("cb", false);
    vt::emit(e);
    try {
      c.legalize(ColoquinteParameters(3));
      Value r = vt::ev("EndReturn");
      r.set("run", run).set("obj", "A").set("circ", vp::circuitToJson(c)).set("wl", c.hpwl());
      vt::emit(r);
    } catch (std::exception &ex) {
      Value r = vt::ev("EndThrow");
      r.set("run", run).set("obj", "A").set("what", ex.what()).set("circ", vp::circuitToJson(c)).set("wl", c.hpwl());
      vt::emit(r);
    }
  }
}


// ---- "api" scenario: a random history of the public mutators of Circuit with logged arguments.  The specification computes
// the state each call must leave (PlaceAPI.ApiEffect) and whether it must be refused (ApiValid); the harness only reports.
static Value ints(const std::vector<int> &v) { return Value::from(v); }
static void apiRun(int run, const Circuit &base, vg::Rng &r) {
  Circuit c = base;
  int steps = (int)r.in(8, 16);
  static const std::vector<std::string> kinds = {"setCellX", "setCellY", "setCellWidth", "setCellHeight", "setCellIsFixed", "setCellIsObstruction",
                                                 "setCellOrientation", "setCellRowPolarity", "setSolution", "setNetWeights", "addNet", "setNets",
                                                 "setRows", "setupRows"};
  static const std::vector<CellOrientation> all8 = {CellOrientation::N, CellOrientation::S, CellOrientation::W, CellOrientation::E,
                                                    CellOrientation::FN, CellOrientation::FS, CellOrientation::FW, CellOrientation::FE};
  static const std::vector<CellRowPolarity> pols = {CellRowPolarity::ANY, CellRowPolarity::SAME, CellRowPolarity::OPPOSITE, CellRowPolarity::NW,
                                                    CellRowPolarity::SE};
  for (int st = 0; st < steps; ++st) {
    int n = c.nbCells();
    std::string kind = r.pick(kinds);
    // vector length: mostly right, sometimes one short / one long / empty
    auto len = [&](int ref) { return r.chance(0.8) ? ref : (int)r.pick(std::vector<int>{std::max(0, ref - 1), ref + 1, 0, ref + 3}); };
    Value arg = Value::object();
    std::string outcome = "ok", what;
    try {
      if (kind == "setCellX" || kind == "setCellY" || kind == "setCellWidth" || kind == "setCellHeight") {
        std::vector<int> v(len(n));
        bool size = kind == "setCellWidth" || kind == "setCellHeight";
        for (int &e : v) e = (int)(size ? r.in(0, 9) : r.in(-30, 60));
        arg.set("v", ints(v));
        if (kind == "setCellX") c.setCellX(v);
        else if (kind == "setCellY") c.setCellY(v);
        else if (kind == "setCellWidth") c.setCellWidth(v);
        else c.setCellHeight(v);
      } else if (kind == "setCellIsFixed" || kind == "setCellIsObstruction") {
        std::vector<bool> v(len(n));
        for (size_t i = 0; i < v.size(); ++i) v[i] = r.chance(0.4);
        arg.set("v", Value::fromBools(v));
        if (kind == "setCellIsFixed") c.setCellIsFixed(v);
        else c.setCellIsObstruction(v);
      } else if (kind == "setCellOrientation") {
        std::vector<CellOrientation> v(len(n));
        Value names = Value::array();
        for (auto &e : v) {
          e = r.pick(all8);
          names.push(vp::orientName(e));
        }
        arg.set("v", names);
        c.setCellOrientation(v);
      } else if (kind == "setCellRowPolarity") {
        std::vector<CellRowPolarity> v(len(n));
        Value names = Value::array();
        for (auto &e : v) {
          e = r.pick(pols);
          names.push(vp::polName(e));
        }
        arg.set("v", names);
        c.setCellRowPolarity(v);
      } else if (kind == "setSolution") {
        PlacementSolution sol;
        Value pl = Value::array();
        int m = len(n);
        for (int i = 0; i < m; ++i) {
          CellOrientation o = r.pick(all8);
          int x = (int)r.in(-30, 60), y = (int)r.in(-30, 60);
          sol.emplace_back(x, y, o);
          pl.push(Value::object().set("x", x).set("y", y).set("o", vp::orientName(o)));
        }
        arg.set("v", pl);
        c.setSolution(sol);
      } else if (kind == "setNetWeights") {
        std::vector<float> w(len(c.nbNets()));
        Value bits = Value::array();
        for (float &e : w) {
          e = (float)r.in(1, 12) * 0.25f;
          bits.push(vp::floatBits(e));
        }
        arg.set("v", bits);
        c.setNetWeights(w);
      } else if (kind == "addNet") {
        int deg = (int)r.in(0, 4);
        std::vector<int> cells(deg), dx(r.chance(0.9) ? deg : deg + 1), dy(r.chance(0.9) ? deg : std::max(0, deg - 1));
        for (int &e : cells) e = r.chance(0.9) ? (int)r.in(0, n - 1) : (int)r.pick(std::vector<int>{-1, n, n + 5});
        for (int &e : dx) e = (int)r.in(-2, 9);
        for (int &e : dy) e = (int)r.in(-2, 9);
        float w = (float)r.in(1, 12) * 0.25f;
        std::vector<int> cells1 = cells;
        for (int &e : cells1) e += 1;
        arg.set("cells", ints(cells1)).set("dx", ints(dx)).set("dy", ints(dy)).set("wt", vp::floatBits(w));
        c.addNet(cells, dx, dy, w);
      } else if (kind == "setNets") {
        int nn = (int)r.in(0, 3);
        std::vector<int> lim = {0}, cells, dx, dy;
        for (int k = 0; k < nn; ++k) {
          int deg = (int)r.in(0, 3);
          for (int j = 0; j < deg; ++j) {
            cells.push_back(r.chance(0.95) ? (int)r.in(0, n - 1) : (int)r.pick(std::vector<int>{-1, n}));
            dx.push_back((int)r.in(-2, 9));
            dy.push_back((int)r.in(-2, 9));
          }
          lim.push_back((int)cells.size());
        }
        int flaw = r.chance(0.75) ? 0 : (int)r.in(1, 5);
        if (flaw == 1) lim[0] = 1;
        if (flaw == 2) lim.back() += 1;
        if (flaw == 3) dx.push_back(0);
        if (flaw == 4 && lim.size() > 2) std::swap(lim[1], lim[2]);
        if (flaw == 5) lim.clear();
        std::vector<float> w;
        Value bits = Value::array();
        int wl = r.chance(0.4) ? 0 : (r.chance(0.85) ? nn : nn + 1);
        for (int k = 0; k < wl; ++k) {
          w.push_back((float)r.in(1, 12) * 0.25f);
          bits.push(vp::floatBits(w.back()));
        }
        std::vector<int> cells1 = cells;
        for (int &e : cells1) e += 1;
        arg.set("lim", ints(lim)).set("cells", ints(cells1)).set("dx", ints(dx)).set("dy", ints(dy)).set("w", bits);
        c.setNets(lim, cells, dx, dy, w);
      } else if (kind == "setRows") {
        std::vector<Row> rows;
        Value rj = Value::array();
        int nr = (int)r.in(0, 4);
        for (int k = 0; k < nr; ++k) {
          int x0 = (int)r.in(-10, 10), y0 = (int)r.in(-2, 4) * 4;
          CellOrientation o = r.pick(std::vector<CellOrientation>{CellOrientation::N, CellOrientation::FS, CellOrientation::S, CellOrientation::FN});
          rows.emplace_back(x0, x0 + (int)r.in(4, 40), y0, y0 + 4, o);
          rj.push(Value::object().set("x0", rows.back().minX).set("x1", rows.back().maxX).set("y0", y0).set("y1", y0 + 4).set("o", vp::orientName(o)));
        }
        arg.set("rows", rj);
        c.setRows(rows);
      } else {
        int x0 = (int)r.in(-10, 10), y0 = (int)r.in(-10, 10), w = (int)r.in(1, 40), hh = (int)r.in(0, 30);
        int rh = (int)r.pick(std::vector<int>{1, 2, 3, 4, 7, 0, -2});
        bool alt = r.chance(0.5), init = r.chance(0.5);
        arg.set("x0", x0).set("x1", x0 + w).set("y0", y0).set("y1", y0 + hh).set("h", rh).set("alt", alt).set("init", init);
        c.setupRows(Rectangle(x0, x0 + w, y0, y0 + hh), rh, alt, init);
      }
    } catch (std::exception &ex) {
      outcome = "error";
      what = ex.what();
    }
    Value e = vt::ev("Api");
    Value pw = Value::array(), ph = Value::array();
    for (int i = 0; i < c.nbCells(); ++i) {
      pw.push(c.placedWidth(i));
      ph.push(c.placedHeight(i));
    }
    e.set("run", run).set("step", st).set("kind", kind).set("arg", arg).set("outcome", outcome).set("what", what);
    e.set("circ", vp::circuitToJson(c)).set("wl", c.hpwl()).set("pw", pw).set("ph", ph);
    Value fr = Value::array();
    for (const Row &f : c.computeRows())
      fr.push(Value::object().set("x0", f.minX).set("x1", f.maxX).set("y0", f.minY).set("y1", f.maxY).set("o", vp::orientName(f.orientation)));
    e.set("free", fr);
    // internal consistency as the object itself judges it
    std::string chkWhat;
    try {
      c.check();
    } catch (std::exception &ex) {
      chkWhat = ex.what();
    }
    e.set("check", chkWhat);
    vt::emit(e);
  }
}

// ---- "paramsets": whole parameter sets with several fields at once outside / at / inside their documented ranges, and integer fields
// in every relation the check constrains (sizes and overlaps, initial steps and steps).  The specification (PlaceAPI.ParamsValid)
// decides from the logged codes and integers whether the set must be accepted.
static void paramSetRun(int run, vg::Rng &r) {
  ColoquinteParameters p((int)r.in(1, 9), 1);
  p.global.maxNbSteps = (int)r.in(2, 4);
  p.global.nbInitialSteps = std::min(p.global.nbInitialSteps, p.global.maxNbSteps - 1);
  double pOut = r.pick(std::vector<double>{0.0, 0.0, 0.02, 0.05, 0.15});
  Value codes = Value::object();
  for (int k = 0; k < kNbFields; ++k) {
    const Field &f = kFields[k];
    if (f.integer) continue;
    std::string code = "in";
    if (r.chance(pOut)) {
      std::vector<std::string> opts;
      if (!std::isnan(f.lo)) {
        opts.push_back("b");
        if (!f.loAny) opts.push_back("lo");
      }
      if (!std::isnan(f.hi)) {
        opts.push_back("a");
        if (!f.hiAny) opts.push_back("hi");
      }
      code = r.pick(opts);
      bool low = code == "b" || code == "lo";
      setField(p, f.name, pickValue(f, low, (code == "lo" || code == "hi") ? "at" : r.pick(std::vector<std::string>{"outside", "near", "far"})));
    }
    codes.set(f.name, code);
  }
  // integers: values around every bound and relation
  auto &g = p.global;
  auto &rl = g.roughLegalization;
  if (r.chance(0.4)) {
    rl.lineReoptSize = (int)r.pick(std::vector<int>{0, 1, 1, 2, 3, 8, 64, 65});
    rl.lineReoptOverlap = (int)r.pick(std::vector<int>{0, 1, 1, 1, 2, 3, 7, 8, 64});
    rl.diagReoptSize = (int)r.pick(std::vector<int>{0, 1, 1, 2, 3, 8, 64, 65});
    rl.diagReoptOverlap = (int)r.pick(std::vector<int>{0, 1, 1, 1, 2, 3, 7, 8, 64});
    rl.squareReoptSize = (int)r.pick(std::vector<int>{0, 1, 1, 2, 3, 8, 9});
    rl.squareReoptOverlap = (int)r.pick(std::vector<int>{0, 1, 1, 1, 2, 3, 7, 8});
  }
  if (r.chance(0.2)) rl.nbSteps = (int)r.in(-1, 2);
  if (r.chance(0.2)) rl.unidimensionalTransport = r.chance(0.5);
  if (r.chance(0.2)) rl.costModel = r.pick(std::vector<LegalizationModel>{LegalizationModel::L1, LegalizationModel::L2, LegalizationModel::LInf});
  if (r.chance(0.15)) p.legalization.costModel = r.pick(std::vector<LegalizationModel>{LegalizationModel::L1, LegalizationModel::L2, LegalizationModel::LInf});
  if (r.chance(0.2)) {
    g.maxNbSteps = (int)r.in(-1, 4);
    g.nbInitialSteps = (int)r.in(-1, 4);
  }
  if (r.chance(0.15)) g.nbStepsBeforeRoughLegalization = (int)r.in(0, 2);
  if (r.chance(0.15)) g.continuousModel.maxNbConjugateGradientSteps = (int)r.in(-1, 2);
  auto &d = p.detailed;
  if (r.chance(0.2)) {
    d.nbPasses = (int)r.in(-1, 2);
    d.localSearchNbNeighbours = (int)r.in(-1, 3);
    d.localSearchNbRows = (int)r.in(-1, 2);
    d.shiftNbRows = (int)r.in(0, 3);
    d.shiftMaxNbCells = (int)r.in(-1, 30);
    d.reorderingNbRows = (int)r.in(0, 2);
    d.reorderingMaxNbCells = (int)r.in(-1, 3);
  }
  Value ints = Value::object();
  ints.set("nbSteps", rl.nbSteps).set("lineSize", rl.lineReoptSize).set("lineOverlap", rl.lineReoptOverlap);
  ints.set("diagSize", rl.diagReoptSize).set("diagOverlap", rl.diagReoptOverlap).set("squareSize", rl.squareReoptSize).set("squareOverlap", rl.squareReoptOverlap);
  ints.set("uni1d", rl.unidimensionalTransport).set("roughL1", rl.costModel == LegalizationModel::L1).set("legL1", p.legalization.costModel == LegalizationModel::L1);
  ints.set("maxNbSteps", g.maxNbSteps).set("nbInitialSteps", g.nbInitialSteps).set("stepsBeforeRough", g.nbStepsBeforeRoughLegalization);
  ints.set("cgSteps", g.continuousModel.maxNbConjugateGradientSteps);
  ints.set("nbPasses", d.nbPasses).set("lsNeighbours", d.localSearchNbNeighbours).set("lsRows", d.localSearchNbRows).set("shiftNbRows", d.shiftNbRows);
  ints.set("shiftMaxNbCells", d.shiftMaxNbCells).set("reorderingNbRows", d.reorderingNbRows).set("reorderingMaxNbCells", d.reorderingMaxNbCells);
  std::string outcome = "ok", what;
  try {
    p.check();
  } catch (std::exception &ex) {
    outcome = "error";
    what = ex.what();
  }
  Value e = vt::ev("ParamSet");
  e.set("run", run).set("codes", codes).set("ints", ints).set("outcome", outcome).set("what", what);
  // a rejected set must be refused by one entry point (drawn at random) before any work, leaving the circuit as it was
  Value stage = Value::object();
  stage.set("stage", "none").set("controlOk", true).set("controlMoved", true).set("rejected", true).set("same", true).set("callbacks", 0);
  if (outcome == "error") {
    Circuit pile = pileCircuit(run);
    std::string before = vp::circuitToJson(pile).str();
    int st = (int)r.in(0, 2);
    static const char *stageNames[] = {"global", "legalize", "detailed"};
    bool threw = false;
    int cbs = 0;
    try {
      PlacementCallback cb = [&](PlacementStep) { ++cbs; };
      if (st == 0) pile.placeGlobal(p, cb);
      else if (st == 1) pile.legalize(p, cb);
      else pile.placeDetailed(p, cb);
    } catch (std::exception &) {
      threw = true;
    }
    stage.set("stage", stageNames[st]).set("rejected", threw && cbs == 0).set("same", vp::circuitToJson(pile).str() == before).set("callbacks", cbs);
  }
  e.set("call", stage);
  vt::emit(e);
}

static long long nbInvalidAttempts() { return 59 + 48 + kNbFields * 12 + 11 * 3 + 12; }

int main(int argc, char **argv) {
  for (int i = 1; i < argc; ++i) {
    const char *eq = strchr(argv[i], '=');
    if (eq) g_args[std::string(argv[i], eq - argv[i])] = eq + 1;
  }
  vt::openTrace(args("out", "/dev/stdout"));
  std::string scen = args("scen", "proto");
  std::string errPath = args("out", "/tmp/record_proto") + ".stderr";
  int timeout = (int)argi("timeout", 120);
  long long seed = argi("seed", 1), first = argi("first", 0), runs = argi("runs", 10);
  if (g_args.count("replay")) {
    std::ifstream f(g_args["replay"]);
    std::string line;
    std::getline(f, line);
    Value rs = vj::parse(line);
    seed = rs["seed"].asInt();
    first = rs["run"].asInt();
    runs = 1;
    scen = rs["scen"].asStr();
  }
  if (scen == "invalid" && !g_args.count("replay") && argi("all", 1)) {
    // the attempt space is enumerated exhaustively: run k = attempt k
    runs = std::min(runs, nbInvalidAttempts() - first);
  }
  for (long long k = first; k < first + runs; ++k) {
    uint64_t s = (uint64_t)seed * 1000003ULL + (uint64_t)(scen == "invalid" ? 0 : k);
    vg::Rng r(s);
    vg::GenOpts g;
    g.maxMovable = 6;
    g.maxFixed = 2;
    g.maxNets = 5;
    g.zeroSizeFixed = false;
    g.globalDomain = true;
    g.scaleShift = 1;
    g.utilHi = scen == "proto" && (k % 5 == 4) ? 1.6 : 0.7;  // every fifth instance is infeasible (legalization must throw)
    g.utilLo = scen == "proto" && (k % 5 == 4) ? 1.3 : 0.1;
    Circuit base = vg::genCircuit(r, g);
    if (base.nbCells() < 2) {
      // the setter arguments need two cells
      Circuit c2(2);
      base = vg::genCircuit(r, g);
    }
    Value rs = vt::ev("Reset");
    rs.set("run", (long long)k).set("scen", scen).set("seed", seed).set("gseed", (long long)s);
    rs.set("params", vg::paramsToJson(ColoquinteParameters(3))).set("circ", vp::circuitToJson(base)).set("wl", base.hpwl());
    vt::emit(rs);
    if (base.nbCells() < 2) continue;
    vt::forked((int)k, timeout, errPath, [&] {
      if (scen == "proto") protoRun((int)k, base, r);
      else if (scen == "api") apiRun((int)k, base, r);
      else if (scen == "paramsets") paramSetRun((int)k, r);
      else invalidRun((int)k, k, base);
    }, scen.c_str());
  }
  unlink(errPath.c_str());
  return 0;
}
