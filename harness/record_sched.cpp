// C08 recorder: determinism of placement across repeated runs, copies, run orders, callbacks and - through the
// COLOQUINTE_VERIF hook around NetModel::solveWithPenalty - across forced completion orders of the two parallel solves.
//   scen=sched : one circuit, placeGlobal under the schedules free / x-first / y-first / alternate / random (+ delays);
//                every solve entry/exit is logged; all results must be identical.
//   scen=runs  : jobs (global, legalize, detailed; with/without callback) on copies, in two processes with different job
//                orders and an unrelated job first; equal inputs must give equal outputs.
#include <sched.h>

#include <atomic>
#include <chrono>
#include <condition_variable>
#include <cstring>
#include <map>
#include <mutex>
#include <thread>

#include "calls.hpp"
#include "gen.hpp"
#include "place_global/net_model.hpp"

static std::map<std::string, std::string> g_args;
static long long argi(const char *k, long long d) { return g_args.count(k) ? atoll(g_args[k].c_str()) : d; }
static std::string args(const char *k, const char *d) { return g_args.count(k) ? g_args[k] : d; }

// ------------------------------------------------------------------------------------------- schedule forcing
namespace sched {
std::mutex mu;
std::condition_variable cv;
int run = 0;
std::string mode = "free";   // free | xfirst | yfirst | alternate | random | delay
uint64_t rnd = 1;
// per lower-bound step
const void *entered[2] = {nullptr, nullptr};
const void *seen[2] = {nullptr, nullptr};   // identities of the net models met in this call (first seen = 0)
static int modelId(const void *m) {
  for (int i = 0; i < 2; ++i) {
    if (seen[i] == m) return i;
    if (seen[i] == nullptr) {
      seen[i] = m;
      return i;
    }
  }
  return 2;  // a third model: never expected
}
int nEntered = 0, nExited = 0;
long long stepNo = 0;
bool timedOut = false;
std::vector<std::string> log;  // compact log of the step: who exited first

static bool secondThisStep(bool isX) {
  // which model must exit second in this step
  if (mode == "xfirst") return !isX;
  if (mode == "yfirst") return isX;
  if (mode == "alternate") return (stepNo % 2 == 0) ? !isX : isX;
  if (mode == "random") {
    uint64_t h = (rnd + (uint64_t)stepNo) * 0x9E3779B97F4A7C15ULL;
    bool xSecond = (h >> 40) & 1;
    return xSecond ? isX : !isX;
  }
  return false;
}

void hook(const void *model, int phase) {
  std::unique_lock<std::mutex> lk(mu);
  if (phase == 0) {
    int slot = nEntered < 2 ? nEntered : 1;
    entered[slot] = model;
    ++nEntered;
    Value e = vt::ev("Solve");
    e.set("run", run).set("phase", "enter").set("step", stepNo).set("slot", slot).set("concurrent", nEntered - nExited).set("mid", modelId(model));
    vt::emit(e);
    cv.notify_all();
    return;
  }
  // exit: find out whether this is the x model (declared first in GlobalPlacer => lower address) - needs both entries
  if (mode != "free" && mode != "delay") {
    if (!cv.wait_for(lk, std::chrono::seconds(20), [] { return nEntered >= 2; })) timedOut = true;
    if (nEntered >= 2) {
      const void *other = entered[0] == model ? entered[1] : entered[0];
      bool isX = model < other;
      if (secondThisStep(isX)) {
        if (!cv.wait_for(lk, std::chrono::seconds(20), [] { return nExited >= 1; })) timedOut = true;
      }
    }
  } else if (mode == "delay") {
    uint64_t h = (rnd + (uint64_t)stepNo * 2 + (uint64_t)nExited) * 0x9E3779B97F4A7C15ULL;
    lk.unlock();
    std::this_thread::sleep_for(std::chrono::microseconds((h >> 44) % 3000));
    lk.lock();
  }
  ++nExited;
  {
    const void *other = entered[0] == model ? entered[1] : entered[0];
    Value e = vt::ev("Solve");
    e.set("run", run).set("phase", "exit").set("step", stepNo).set("model", (nEntered >= 2 && model < other) ? "x" : "y").set("order", nExited).set("mid", modelId(model));
    vt::emit(e);
  }
  if (nExited == 2) {
    nEntered = nExited = 0;
    entered[0] = entered[1] = nullptr;
    ++stepNo;
  }
  cv.notify_all();
}
}  // namespace sched

static void schedScenario(int run, const Circuit &base, const ColoquinteParameters &p, bool pinned) {
  static const char *modesAll[] = {"free", "xfirst", "yfirst", "alternate", "random", "delay"};
  static const char *objsAll[] = {"A", "B", "C", "D", "E", "F"};
  static const char *modesPinned[] = {"free", "delay"};
  static const char *objsPinned[] = {"G", "H"};
  const char **modes = pinned ? modesPinned : modesAll;
  const char **objs = pinned ? objsPinned : objsAll;
  if (pinned) {
    // single-core affinity: the two solver threads and the main thread share one core
    cpu_set_t set;
    CPU_ZERO(&set);
    CPU_SET(sched_getcpu() >= 0 ? sched_getcpu() : 0, &set);
    sched_setaffinity(0, sizeof(set), &set);
  }
  coloquinte::verif::solveHook = sched::hook;
  sched::run = run;
  int nModes = pinned ? 2 : (int)argi("modes", 6);
  for (int m = 0; m < nModes; ++m) {
    Circuit c = base;
    sched::mode = modes[m];
    sched::rnd = (uint64_t)run * 31 + 7;
    sched::nEntered = sched::nExited = 0;
    sched::stepNo = 0;
    sched::seen[0] = sched::seen[1] = nullptr;
    Value s = vt::ev("Schedule");
    s.set("run", run).set("obj", objs[m]).set("mode", modes[m]);
    vt::emit(s);
    Ctx cx{run, m % 2 == 0, false};
    call(cx, c, objs[m], "global", p);
    if (sched::timedOut) {
      Value e = vt::ev("HarnessError");
      e.set("run", run).set("what", "forced schedule wait timed out");
      vt::emit(e);
      sched::timedOut = false;
    }
  }
  coloquinte::verif::solveHook = nullptr;
}

static void runsScenario(int run, const Circuit &base, const ColoquinteParameters &p, vg::Rng &r) {
  // process 1: A with callbacks, B without, interleaved stage by stage
  std::string errPath = args("out", "/tmp/record_sched") + ".stderr2";
  vt::forked(run, 300, errPath, [&] {
    Circuit a = base, b = base;
    Ctx withCb{run, true, false}, noCb{run, false, false};
    bool ga = call(withCb, a, "A", "global", p);
    bool gb = call(noCb, b, "B", "global", p);
    if (ga && call(noCb, a, "A", "legalize", p)) call(withCb, a, "A", "detailed", p);
    if (gb && call(withCb, b, "B", "legalize", p)) call(noCb, b, "B", "detailed", p);
    // repeated run on a fresh copy
    Circuit d = base;
    call(noCb, d, "D", "global", p);
    // legalization and detailed placement entered directly on freshly built circuits (no global placement before), with and
    // without an observer
    Circuit f = base, g = base;
    bool lf = call(withCb, f, "F", "legalize", p);
    bool lg = call(noCb, g, "G", "legalize", p);
    if (lf) call(noCb, f, "F", "detailed", p);
    if (lg) call(withCb, g, "G", "detailed", p);
  }, "runs");
  // process 2: an unrelated job first (different size and parameters), then the same jobs in another order
  vt::forked(run, 300, errPath, [&] {
    vg::GenOpts g;
    g.globalDomain = true;
    g.maxMovable = 18;
    g.scaleShift = 4;
    vg::Rng r2((uint64_t)run * 17 + 3);
    Circuit other = vg::genCircuit(r2, g);
    vg::ParamOpts po;
    vg::Rng pr2(r2.u());
    ColoquinteParameters p2 = vg::genParams(pr2, po);
    try {
      if (vg::inGlobalDomain(other, p2.global.roughLegalization.sideMargin)) {
        other.placeGlobal(p2);
        other.placeDetailed(p2);
      }
    } catch (std::exception &) {
    }
    Circuit c = base;
    Ctx noCb{run, false, false};
    if (call(noCb, c, "C", "global", p))
      if (call(noCb, c, "C", "legalize", p)) call(noCb, c, "C", "detailed", p);
    Circuit e = base;
    Ctx withCb{run, true, false};
    call(withCb, e, "E", "global", p);
  }, "runs");
  unlink(errPath.c_str());
}

int main(int argc, char **argv) {
  for (int i = 1; i < argc; ++i) {
    const char *eq = strchr(argv[i], '=');
    if (eq) g_args[std::string(argv[i], eq - argv[i])] = eq + 1;
  }
  vt::openTrace(args("out", "/dev/stdout"));
  std::string scen = args("scen", "sched");
  std::string errPath = args("out", "/tmp/record_sched") + ".stderr";
  int timeout = (int)argi("timeout", 600);
  long long seed = argi("seed", 1), first = argi("first", 0), runs = argi("runs", 10);
  bool replay = g_args.count("replay");
  Value rsIn;
  if (replay) {
    std::ifstream f(g_args["replay"]);
    std::string line;
    std::getline(f, line);
    rsIn = vj::parse(line);
    seed = rsIn["seed"].asInt();
    first = rsIn["run"].asInt();
    runs = 1;
    scen = rsIn["scen"].asStr();
    if (rsIn.has("cpus")) g_args["cpus"] = std::to_string(rsIn["cpus"].asInt());
  }
  if (argi("cpus", 0) > 0) {
    cpu_set_t set;
    CPU_ZERO(&set);
    for (int i = 0; i < argi("cpus", 0); ++i) CPU_SET(i, &set);
    sched_setaffinity(0, sizeof(set), &set);
  }
  for (long long k = first; k < first + runs; ++k) {
    uint64_t s = (uint64_t)seed * 1000003ULL + (uint64_t)k;
    vg::Rng r(s);
    vg::GenOpts g;
    g.globalDomain = true;
    g.maxMovable = (int)argi("maxMovable", 24);
    g.maxNets = (int)argi("maxNets", 30);
    g.scaleShift = (int)r.pick(std::vector<int>{0, 3, 6});
    g.utilHi = 0.9;
    Circuit base = vg::genCircuit(r, g);
    vg::ParamOpts po;
    po.smallGlobal = true;
    vg::Rng pr(r.u() >> 1);
    ColoquinteParameters p = vg::genParams(pr, po);
    if (scen == "sched") p.global.maxNbSteps = std::min(p.global.maxNbSteps, (int)argi("maxSteps", 12));
    bool ok = false;
    for (int tries = 0; tries < 50 && !(ok = vg::inGlobalDomain(base, p.global.roughLegalization.sideMargin)); ++tries)
      base = vg::genCircuit(r, g);
    if (!ok) continue;
    Value rs = vt::ev("Reset");
    rs.set("run", (long long)k).set("scen", scen).set("seed", seed).set("gseed", (long long)s).set("cpus", argi("cpus", 0));
    rs.set("params", vg::paramsToJson(p)).set("circ", vp::circuitToJson(base)).set("wl", base.hpwl());
    vt::emit(rs);
    if (scen == "sched") {
      vt::forked((int)k, timeout, errPath, [&] { schedScenario((int)k, base, p, false); }, "sched");
      vt::forked((int)k, timeout, errPath, [&] { schedScenario((int)k, base, p, true); }, "sched");
    } else {
      runsScenario((int)k, base, p, r);
    }
  }
  unlink(errPath.c_str());
  return 0;
}
