// Spec -> code replayer: reads cases emitted by TLC (PrintT(ToJson(..)) lines or raw ndjson) on stdin,
// drives the real implementation, compares with the value the specification expects (deterministic
// contracts) or writes the observed result for validation by TLC (relational contracts).
#include <iostream>
#include <string>

#include "replay_handlers.hpp"

int main(int argc, char **argv) {
  std::ios::sync_with_stdio(false);
  std::string line;
  long long n = 0, bad = 0, skipped = 0, implSame = 0, implSeen = 0;
  bool all = argc > 1 && std::string(argv[1]) == "--all";
  while (std::getline(std::cin, line)) {
    vj::Value v;
    try {
      if (!vj::parseLine(line, v)) continue;
    } catch (std::exception &e) {
      continue;
    }
    if (!v.has("k")) continue;
    vj::Value res;
    try {
      res = vr::handle(v);
    } catch (std::exception &e) {
      res = vj::Value::object();
      res.set("ok", false).set("exception", e.what());
    }
    if (res.kind == vj::Value::Null) {
      ++skipped;
      continue;
    }
    ++n;
    bool ok = res["ok"].asBool();
    if (res.has("impl")) {
      ++implSeen;
      if (res["impl"].asBool()) ++implSame;
    }
    if (!ok) ++bad;
    if (res.has("emit")) {
      // events for validation by TLC: one line each
      const vj::Value &evs = res["emit"];
      for (size_t k = 0; k < evs.size(); ++k) std::cout << evs[k].str() << "\n";
    } else if (!ok || all) {
      res.set("case", v);
      std::cout << res.str() << "\n";
    }
  }
  vj::Value s = vj::Value::object();
  s.set("summary", true).set("n", n).set("bad", bad).set("skipped", skipped).set("impl_seen", implSeen).set("impl_same", implSame);
  std::cout << s.str() << std::endl;
  return 0;
}
