#pragma once
#include "coloquinte.hpp"
#include "place_detailed/incr_net_model.hpp"
#include "json.hpp"
#include "project.hpp"

namespace vr {
using namespace coloquinte;
using vj::Value;

// ---- C09 / C04: orientation algebra
inline Value handlePin(const Value &v) {
  Circuit c(1);
  c.setCellWidth({(int)v["w"].asInt()});
  c.setCellHeight({(int)v["h"].asInt()});
  c.setCellOrientation({vp::orientFrom(v["o"].asStr())});
  c.addNet({0}, {(int)v["dx"].asInt()}, {(int)v["dy"].asInt()});
  Value r = Value::object();
  int pw = c.placedWidth(0), ph = c.placedHeight(0), px = c.pinXOffset(0, 0), py = c.pinYOffset(0, 0);
  bool ok = pw == v["pw"].asInt() && ph == v["ph"].asInt() && px == v["px"].asInt() && py == v["py"].asInt();
  r.set("ok", ok);
  if (!ok) r.set("got", Value::object().set("pw", pw).set("ph", ph).set("px", px).set("py", py));
  return r;
}

inline Value handleRow(const Value &v) {
  CellOrientation ro = vp::orientFrom(v["ro"].asStr());
  CellRowPolarity pol = vp::polFrom(v["pol"].asStr());
  std::string got = vp::orientName(cellOrientationInRow(pol, ro));
  std::string opp = vp::orientName(oppositeRowOrientation(ro));
  bool turn = isTurn(ro);
  bool ok = got == v["expect"].asStr() && opp == v["opp"].asStr() && turn == v["turn"].asBool();
  Value r = Value::object();
  r.set("ok", ok);
  if (!ok) r.set("got", Value::object().set("expect", got).set("opp", opp).set("turn", turn));
  return r;
}

// ---- C09: incremental 1-D wirelength along a history of updates, and Circuit::hpwl
inline Value handleIncr(const Value &v) {
  Circuit c = vp::circuitFromJson(v["circ"]);
  std::vector<int> sub;
  for (int s : v["sub"].ints()) sub.push_back(s - 1);
  bool isX = v["axis"].asStr() == "x";
  Value r = Value::object();
  Value got = Value::array();
  bool ok = true;
  long long hp0 = c.hpwl();
  if (hp0 != v["hp0"].asInt()) ok = false;
  IncrNetModel m = isX ? IncrNetModel::xTopology(c, sub) : IncrNetModel::yTopology(c, sub);
  const Value &expect = v["expect"];
  got.push(m.value());
  if (m.value() != expect[0].asInt()) ok = false;
  const Value &hist = v["hist"];
  std::vector<int> x = c.cellX(), y = c.cellY();
  for (size_t k = 0; k < hist.size(); ++k) {
    int cell = (int)hist[k][0].asInt() - 1, p = (int)hist[k][1].asInt();
    int idx = -1;
    for (size_t j = 0; j < sub.size(); ++j)
      if (sub[j] == cell) idx = (int)j;
    if (idx < 0) throw std::runtime_error("cell not in subset");
    m.updateCellPos(idx, p);
    (isX ? x : y)[cell] = p;
    got.push(m.value());
    if (m.value() != expect[k + 1].asInt()) ok = false;
  }
  try {
    m.check();
  } catch (std::exception &e) {
    ok = false;
    r.set("check", e.what());
  }
  c.setCellX(x);
  c.setCellY(y);
  long long hp1 = c.hpwl();
  if (hp1 != v["hp1"].asInt()) ok = false;
  r.set("ok", ok);
  if (!ok) r.set("got", Value::object().set("vals", got).set("hp0", hp0).set("hp1", hp1));
  return r;
}

inline Value handle(const Value &v) {
  const std::string &k = v["k"].asStr();
  if (k == "pin") return handlePin(v);
  if (k == "row") return handleRow(v);
  if (k == "incr") return handleIncr(v);
  return Value();
}
}  // namespace vr
