#pragma once
#include "coloquinte.hpp"
#include "place_detailed/incr_net_model.hpp"
#include "place_detailed/row_legalizer.hpp"
#include "place_detailed/detailed_placement.hpp"
#include "place_global/transportation.hpp"
#include "place_global/transportation_1d.hpp"
#include "place_global/density_legalizer.hpp"
#include <algorithm>
#include "json.hpp"
#include "project.hpp"

namespace vr {
using namespace coloquinte;
using vj::Value;

// ---- C09 / C04: orientation algebra
inline Value handlePin(const Value &v) {
  Circuit c(1);
  c.setCellWidth({(int)v["w"].asInt()});
  c.setCellHeight({(int)v["h"].asInt()});
  c.setCellOrientation({vp::orientFrom(v["o"].asStr())});
  c.addNet({0}, {(int)v["dx"].asInt()}, {(int)v["dy"].asInt()});
  Value r = Value::object();
  int pw = c.placedWidth(0), ph = c.placedHeight(0), px = c.pinXOffset(0, 0), py = c.pinYOffset(0, 0);
  bool ok = pw == v["pw"].asInt() && ph == v["ph"].asInt() && px == v["px"].asInt() && py == v["py"].asInt();
  r.set("ok", ok);
  if (!ok) r.set("got", Value::object().set("pw", pw).set("ph", ph).set("px", px).set("py", py));
  return r;
}

inline Value handleRow(const Value &v) {
  CellOrientation ro = vp::orientFrom(v["ro"].asStr());
  CellRowPolarity pol = vp::polFrom(v["pol"].asStr());
  std::string got = vp::orientName(cellOrientationInRow(pol, ro));
  std::string opp = vp::orientName(oppositeRowOrientation(ro));
  bool turn = isTurn(ro);
  bool ok = got == v["expect"].asStr() && opp == v["opp"].asStr() && turn == v["turn"].asBool();
  Value r = Value::object();
  r.set("ok", ok);
  if (!ok) r.set("got", Value::object().set("expect", got).set("opp", opp).set("turn", turn));
  return r;
}

// ---- C09: incremental 1-D wirelength along a history of updates, and Circuit::hpwl
inline Value handleIncr(const Value &v) {
  Circuit c = vp::circuitFromJson(v["circ"]);
  std::vector<int> sub;
  for (int s : v["sub"].ints()) sub.push_back(s - 1);
  bool isX = v["axis"].asStr() == "x";
  Value r = Value::object();
  Value got = Value::array();
  bool ok = true;
  long long hp0 = c.hpwl();
  if (hp0 != v["hp0"].asInt()) ok = false;
  IncrNetModel m = isX ? IncrNetModel::xTopology(c, sub) : IncrNetModel::yTopology(c, sub);
  const Value &expect = v["expect"];
  got.push(m.value());
  if (m.value() != expect[0].asInt()) ok = false;
  const Value &hist = v["hist"];
  std::vector<int> x = c.cellX(), y = c.cellY();
  for (size_t k = 0; k < hist.size(); ++k) {
    int cell = (int)hist[k][0].asInt() - 1, p = (int)hist[k][1].asInt();
    int idx = -1;
    for (size_t j = 0; j < sub.size(); ++j)
      if (sub[j] == cell) idx = (int)j;
    if (idx < 0) throw std::runtime_error("cell not in subset");
    m.updateCellPos(idx, p);
    (isX ? x : y)[cell] = p;
    got.push(m.value());
    if (m.value() != expect[k + 1].asInt()) ok = false;
  }
  try {
    m.check();
  } catch (std::exception &e) {
    ok = false;
    r.set("check", e.what());
  }
  c.setCellX(x);
  c.setCellY(y);
  long long hp1 = c.hpwl();
  if (hp1 != v["hp1"].asInt()) ok = false;
  r.set("ok", ok);
  if (!ok) r.set("got", Value::object().set("vals", got).set("hp0", hp0).set("hp1", hp1));
  return r;
}

// ---- C15: free row space
inline Value handleFree(const Value &v) {
  const Value &rw = v["row"];
  Row row((int)rw["x0"].asInt(), (int)rw["x1"].asInt(), (int)rw["y0"].asInt(), (int)rw["y1"].asInt(), vp::orientFrom(rw["o"].asStr()));
  const Value &obs = v["obs"];
  std::vector<Rectangle> extra, blocking;
  std::vector<Rectangle> cellRects;
  std::vector<bool> fixed, obstr;
  for (size_t i = 0; i < obs.size(); ++i) {
    Rectangle r((int)obs[i]["x0"].asInt(), (int)obs[i]["x1"].asInt(), (int)obs[i]["y0"].asInt(), (int)obs[i]["y1"].asInt());
    std::string kind = obs[i]["kind"].asStr();
    if (kind == "extra") {
      extra.push_back(r);
      blocking.push_back(r);
    } else {
      cellRects.push_back(r);
      fixed.push_back(kind == "fixedObs" || kind == "fixedFree");
      obstr.push_back(kind == "fixedObs" || kind == "movableObs");
      if (kind == "fixedObs") blocking.push_back(r);
    }
  }
  int n = (int)cellRects.size();
  Circuit c(n);
  std::vector<int> w(n), h(n), x(n), y(n);
  for (int i = 0; i < n; ++i) {
    w[i] = cellRects[i].width();
    h[i] = cellRects[i].height();
    x[i] = cellRects[i].minX;
    y[i] = cellRects[i].minY;
  }
  c.setCellWidth(w);
  c.setCellHeight(h);
  c.setCellX(x);
  c.setCellY(y);
  c.setCellIsFixed(fixed);
  c.setCellIsObstruction(obstr);
  c.setRows({row});
  auto canon = [&](const std::vector<Row> &rows, bool &shapeOk) {
    std::vector<std::pair<int, int>> segs;
    for (const Row &r : rows) {
      if (r.minY != row.minY || r.maxY != row.maxY || r.orientation != row.orientation) shapeOk = false;
      segs.emplace_back(r.minX, r.maxX);
    }
    std::sort(segs.begin(), segs.end());
    return segs;
  };
  bool shape1 = true, shape2 = true;
  auto viaCircuit = canon(c.computeRows(extra), shape1);
  auto direct = canon(row.freespace(blocking), shape2);
  std::vector<std::pair<int, int>> expect;
  for (size_t i = 0; i < v["expect"].size(); ++i) expect.emplace_back((int)v["expect"][i][0].asInt(), (int)v["expect"][i][1].asInt());
  bool ok = shape1 && shape2 && viaCircuit == expect && direct == expect;
  Value r = Value::object();
  r.set("ok", ok);
  if (!ok) {
    Value a = Value::array(), b = Value::array();
    for (auto &s : viaCircuit) a.push(Value::array().push(s.first).push(s.second));
    for (auto &s : direct) b.push(Value::array().push(s.first).push(s.second));
    r.set("got", Value::object().set("computeRows", a).set("freespace", b).set("shape", shape1 && shape2));
  }
  return r;
}

// ---- C12: single-row legalizer; contract checks decide, equality with the transcription is informational
inline Value handleRowLeg(const Value &v) {
  int b = (int)v["b"].asInt(), e = (int)v["e"].asInt();
  RowLegalizer leg(b, e);
  const Value &cells = v["cells"];
  std::vector<long long> costs;
  std::vector<std::string> why;
  long long sum = 0;
  int used = 0;
  for (size_t i = 0; i < cells.size(); ++i) {
    int w = (int)cells[i][0].asInt(), t = (int)cells[i][1].asInt();
    std::vector<int> before = leg.getPlacement();
    long long q1 = leg.getCost(w, t);
    long long q2 = leg.getCost(w, t);
    if (leg.getPlacement() != before) why.push_back("query changed the placement");
    long long c = leg.push(w, t);
    if (q1 != q2) why.push_back("query not idempotent");
    if (q1 != c) why.push_back("predicted cost differs from reported cost");
    costs.push_back(c);
    sum += c;
    used += w;
    if (leg.usedSpace() != used || leg.remainingSpace() != (e - b) - used) why.push_back("used/remaining space");
  }
  std::vector<int> pl = leg.getPlacement();
  {
    // the same history on a legalizer that was used before and emptied with clear(): nothing of the earlier use may survive
    RowLegalizer used(b, e);
    for (size_t i = cells.size(); i-- > 0;) {
      int w = (int)cells[i][0].asInt(), t = (int)cells[i][1].asInt();
      used.push(w, b + (e - b) - (t - b));   // the cells in reverse order at mirrored targets
    }
    used.clear();
    std::vector<long long> costs2;
    for (size_t i = 0; i < cells.size(); ++i) costs2.push_back(used.push((int)cells[i][0].asInt(), (int)cells[i][1].asInt()));
    if (costs2 != costs || used.getPlacement() != pl) why.push_back("state of an earlier use survives clear()");
  }
  long long plCost = 0;
  if (pl.size() != cells.size()) why.push_back("placement size");
  else {
    for (size_t i = 0; i < pl.size(); ++i) {
      int w = (int)cells[i][0].asInt(), t = (int)cells[i][1].asInt();
      if (pl[i] < b || pl[i] + w > e) why.push_back("outside the segment");
      if (i + 1 < pl.size() && pl[i] + w > pl[i + 1]) why.push_back("order/overlap");
      plCost += (long long)w * std::llabs((long long)pl[i] - t);
    }
  }
  long long opt = v["opt"].asInt();
  if (plCost != opt) why.push_back("placement not optimal");
  std::string sig = "";
  if (sum != opt) {
    why.push_back("reported costs do not sum to the optimum");
    if (why.size() == 1) sig = "cost-sum";
  }
  bool implSame = true;
  for (size_t i = 0; i < costs.size(); ++i)
    if (costs[i] != v["costs"][i].asInt()) implSame = false;
  for (size_t i = 0; i < pl.size() && i < v["placement"].size(); ++i)
    if (pl[i] != v["placement"][i].asInt()) implSame = false;
  Value r = Value::object();
  r.set("ok", why.empty());
  r.set("impl", implSame);
  if (!why.empty()) {
    Value ws = Value::array();
    for (auto &s : why) ws.push(s);
    Value g = Value::object();
    g.set("why", ws).set("costs", Value::from(costs)).set("placement", Value::from(pl)).set("sum", sum).set("placementCost", plCost);
    r.set("got", g).set("sig", sig);
  }
  return r;
}

// ---- C02 / C04: the row data structure of detailed placement. For one state of the DetailedRows model, every feasible swap and
// insert (according to the real object and according to the specification) is applied to a freshly constructed real
// DetailedPlacement; the resulting real states are emitted for validation by TLC (TraceAlgo.DetRes).
inline DetailedPlacement makeDetailed(const Value &v) {
  int len = (int)v["len"].asInt();
  std::vector<Row> rows;
  static const CellOrientation so[3] = {CellOrientation::N, CellOrientation::FS, CellOrientation::S};
  for (int s = 0; s < 3; ++s) rows.emplace_back(0, len, s, s + 1, so[s]);
  const Value &cells = v["cells"];
  int n = (int)cells.size();
  std::vector<int> w(n), x(n), y(n), idx(n);
  std::vector<CellOrientation> o(n);
  std::vector<CellRowPolarity> p(n);
  for (int i = 0; i < n; ++i) {
    w[i] = (int)cells[i]["w"].asInt();
    x[i] = (int)cells[i]["x"].asInt();
    y[i] = (int)cells[i]["seg"].asInt() - 1;
    o[i] = vp::orientFrom(cells[i]["o"].asStr());
    p[i] = vp::polFrom(cells[i]["pol"].asStr());
    idx[i] = i;
  }
  return DetailedPlacement(rows, w, x, y, o, p, idx);
}
inline Value detCells(const DetailedPlacement &pl, const Value &from) {
  Value a = Value::array();
  for (int i = 0; i < pl.nbCells(); ++i) {
    Value e = Value::object();
    e.set("w", pl.cellWidth(i)).set("pol", from[i]["pol"]).set("seg", pl.cellY(i) + 1).set("x", pl.cellX(i)).set("o", vp::orientName(pl.cellOrientation(i)));
    e.set("row", pl.cellRow(i) + 1);
    a.push(e);
  }
  return a;
}
inline Value handleDetState(const Value &v) {
  const Value &cells = v["cells"];
  int n = (int)cells.size();
  Value events = Value::array();
  auto inSet = [&](const Value &set, std::initializer_list<int> key) {
    for (size_t k = 0; k < set.size(); ++k) {
      bool eq = set[k].size() == key.size();
      size_t j = 0;
      for (int q : key) {
        if (eq && set[k][j].asInt() != q) eq = false;
        ++j;
      }
      if (eq) return true;
    }
    return false;
  };
  auto record = [&](const char *act, std::initializer_list<int> args, bool canSpec, bool canReal, DetailedPlacement *res, const std::string &threw) {
    Value e = Value::object();
    e.set("e", "DetRes").set("len", v["len"]).set("from", cells).set("act", act);
    Value a = Value::array();
    for (int q : args) a.push(q);
    e.set("args", a).set("canSpec", canSpec).set("canReal", canReal).set("threw", threw);
    e.set("res", res ? detCells(*res, cells) : Value::array());
    std::string chk = "";
    if (res) {
      try {
        res->check();
      } catch (std::exception &ex) {
        chk = ex.what();
      }
    }
    e.set("check", chk);
    events.push(e);
  };
  DetailedPlacement base = makeDetailed(v);
  for (int a = 0; a < n; ++a)
    for (int b = a + 1; b < n; ++b) {
      bool canSpec = inSet(v["swaps"], {a + 1, b + 1});
      bool canReal = base.canSwap(a, b);
      if (!canSpec && !canReal) continue;
      DetailedPlacement pl = makeDetailed(v);
      std::string threw;
      if (canReal) {
        try {
          pl.swap(a, b);
        } catch (std::exception &ex) {
          threw = ex.what();
        }
      }
      record("swap", {a + 1, b + 1}, canSpec, canReal, canReal ? &pl : nullptr, threw);
    }
  for (int c = 0; c < n; ++c)
    for (int s = 0; s < 3; ++s)
      for (int p = -1; p < n; ++p) {
        if (p >= 0 && base.cellRow(p) != s) {
          if (inSet(v["inserts"], {c + 1, s + 1, p + 1})) record("insert", {c + 1, s + 1, p + 1}, true, false, nullptr, "predecessor not in that row");
          continue;
        }
        bool canSpec = inSet(v["inserts"], {c + 1, s + 1, p + 1});
        bool canReal = base.canInsert(c, s, p);
        if (!canSpec && !canReal) continue;
        DetailedPlacement pl = makeDetailed(v);
        std::string threw;
        if (canReal) {
          try {
            pl.insert(c, s, p);
          } catch (std::exception &ex) {
            threw = ex.what();
          }
        }
        record("insert", {c + 1, s + 1, p + 1}, canSpec, canReal, canReal ? &pl : nullptr, threw);
      }
  Value r = Value::object();
  r.set("ok", true).set("emit", events);
  return r;
}

// ---- C13 (implementation-shaped layer): one final plan reachable in SspImpl for an instance; does the real solver return it?
inline Value handleSsp(const Value &v) {
  std::vector<long long> cap = v["cap"].longs(), dem = v["dem"].longs();
  int ns = (int)cap.size(), nr = (int)dem.size();
  std::vector<std::vector<int>> c(ns, std::vector<int>(nr));
  for (int i = 0; i < ns; ++i)
    for (int s = 0; s < nr; ++s) c[i][s] = (int)v["cost"][i][s].asInt();
  TransportationProblem pb(cap, dem, c);
  pb.solve();
  bool same = true;
  for (int i = 0; i < ns; ++i)
    for (int s = 0; s < nr; ++s)
      if (pb.allocation(i, s) != v["alloc"][i][s].asInt()) same = false;
  Value key = Value::object();
  key.set("cap", v["cap"]).set("dem", v["dem"]).set("cost", v["cost"]);
  Value e = Value::object();
  e.set("sspkey", key.str()).set("match", same);
  Value r = Value::object();
  r.set("ok", true).set("emit", Value::array().push(e));
  return r;
}

// T1dImpl final state: the real sweep on the same sorted instance must give the same plan and the same assignment
inline Value handleT1dImpl(const Value &v) {
  std::vector<long long> u = v["u"].longs(), vv = v["v"].longs(), s = v["s"].longs(), d = v["d"].longs();
  int nr = (int)u.size(), ns = (int)vv.size();
  std::vector<long long> cu = u, cv = vv, cs = s, cd = d;
  Transportation1dSolver solver(std::move(cu), std::move(cv), std::move(cs), std::move(cd));
  solver.check();
  solver.run();
  std::vector<std::vector<long long>> plan(ns, std::vector<long long>(nr, 0));
  for (auto [i, j, a] : solver.computeSolution()) plan[j][i] += a;
  std::vector<int> assign = solver.computeAssignment();
  bool same = (int)assign.size() == nr;
  for (int j = 0; j < ns; ++j)
    for (int i = 0; i < nr; ++i)
      if (plan[j][i] != v["plan"][j][i].asInt()) same = false;
  for (int i = 0; i < nr && same; ++i)
    if (assign[i] != v["assign"][i].asInt()) same = false;
  Value r = Value::object();
  r.set("ok", true).set("impl", same);
  if (!same) {
    Value got = Value::array();
    for (int j = 0; j < ns; ++j) got.push(Value::from(plan[j]));
    r.set("got", got);
  }
  return r;
}

// BisectImpl instance: the real split rule (exposed by the COLOQUINTE_VERIF hook) on the same sorted cost list
inline Value handleBisect(const Value &v) {
  std::vector<int> dem = v["dem"].ints();
  std::vector<long long> cost = v["cost"].longs();
  int n = (int)dem.size();
  // any grid will do: the split helpers only read the cell demands
  DensityGrid grid(4, std::vector<Rectangle>{Rectangle(0, 16, 0, 8)});
  DensityLegalizer leg(grid, dem);
  std::vector<std::pair<float, int>> cc;
  for (int i = 0; i < n; ++i) cc.emplace_back((float)cost[i], i);
  int ideal = leg.findIdealSplitPos(cc);
  int split = leg.findConstrainedSplitPos(cc, ideal, v["c1"].asInt(), v["c2"].asInt());
  auto parts = leg.doSplit(cc, split);
  bool same = ideal == v["ideal"].asInt() && split == v["split"].asInt() && (int)parts.first.size() == split &&
              (int)parts.first.size() + (int)parts.second.size() == n;
  Value r = Value::object();
  r.set("ok", true).set("impl", same);
  if (!same) r.set("got", Value::object().set("ideal", ideal).set("split", split));
  return r;
}

// ExpandImpl final state: the real expandCellsToDensity on a circuit with the same cells, available area and row width
inline Value handleExpandImpl(const Value &v) {
  std::vector<int> w = v["w"].ints(), h = v["h"].ints();
  int n = (int)w.size(), avail = (int)v["avail"].asInt(), roww = (int)v["roww"].asInt();
  Circuit c(n);
  c.setCellWidth(w);
  c.setCellHeight(h);
  std::vector<Row> rows;
  int y = 0;
  for (int left = avail; left > 0; left -= roww, ++y) rows.emplace_back(0, std::min(roww, left), y, y + 1, CellOrientation::N);
  c.setRows(rows);
  c.expandCellsToDensity(v["p64"].asInt() / 64.0, 0.0, v["cap64"].asInt() / 64.0);
  bool same = true;
  for (int i = 0; i < n; ++i)
    if (c.cellWidth()[i] != v["res"][i].asInt()) same = false;
  Value r = Value::object();
  r.set("ok", true).set("impl", same);
  if (!same) r.set("got", Value::from(c.cellWidth()));
  return r;
}

inline Value handle(const Value &v) {
  const std::string &k = v["k"].asStr();
  if (k == "expandimpl") return handleExpandImpl(v);
  if (k == "bisect") return handleBisect(v);
  if (k == "t1dimpl") return handleT1dImpl(v);
  if (k == "pin") return handlePin(v);
  if (k == "row") return handleRow(v);
  if (k == "incr") return handleIncr(v);
  if (k == "free") return handleFree(v);
  if (k == "rowleg") return handleRowLeg(v);
  if (k == "detstate") return handleDetState(v);
  if (k == "ssp") return handleSsp(v);
  return Value();
}
}  // namespace vr
