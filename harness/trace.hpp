// ndjson trace writer + forked execution of one run so that aborts, sanitizer reports and hangs become
// trace events instead of truncated traces.
#pragma once
#include <execinfo.h>
#include <fcntl.h>
#include <signal.h>
#include <sys/wait.h>
#include <unistd.h>

#include <cstdio>
#include <cstdlib>
#include <exception>
#include <fstream>
#include <functional>
#include <string>

#include "json.hpp"

namespace vt {
using vj::Value;

static int g_fd = -1;

inline void openTrace(const std::string &path) {
  g_fd = ::open(path.c_str(), O_WRONLY | O_CREAT | O_TRUNC | O_APPEND, 0644);
  if (g_fd < 0) {
    perror("open trace");
    exit(2);
  }
}

inline void emit(const Value &v) {
  std::string s = v.str();
  s += '\n';
  size_t off = 0;
  while (off < s.size()) {
    ssize_t k = ::write(g_fd, s.data() + off, s.size() - off);
    if (k <= 0) break;
    off += (size_t)k;
  }
}

inline Value ev(const char *name) {
  Value v = Value::object();
  v.set("e", name);
  return v;
}

static int g_run = -1;
static const char *g_scen = "";

static int g_btfd = -1;
// SIGALRM in the child: the wall-clock budget is exhausted.  Only async-signal-safe work here (the interrupted code may hold
// the allocator lock): dump the raw backtrace to a pre-opened file descriptor and leave; the parent classifies it.
inline void onAlarm(int) {
  void *frames[48];
  int n = backtrace(frames, 48);
  if (g_btfd >= 0) backtrace_symbols_fd(frames, n, g_btfd);
  _exit(4);
}

inline void onTerminate() {
  // an exception escaped the scenario (or std::terminate was called): log the fate with the same fields as the parent does
  std::string what = "terminate";
  if (std::exception_ptr p = std::current_exception()) {
    try {
      std::rethrow_exception(p);
    } catch (std::exception &ex) {
      what = std::string("uncaught exception: ") + ex.what();
    } catch (...) {
      what = "uncaught exception of unknown type";
    }
  }
  Value v = ev("Abort");
  v.set("kind", "terminate").set("run", g_run).set("scen", g_scen).set("stderr", what).set("hang", "unknown").set("san", "none").set("code", 3);
  emit(v);
  _exit(3);
}

inline std::string firstLines(const std::string &path, int maxLines, size_t maxChars = 600) {
  std::ifstream f(path);
  std::string line, out;
  int n = 0;
  while (n < maxLines && std::getline(f, line)) {
    if (line.empty()) continue;
    // keep the interesting lines of sanitizer / assert output
    if (line.find("runtime error") != std::string::npos || line.find("ERROR") != std::string::npos ||
        line.find("Assertion") != std::string::npos || line.find("SUMMARY") != std::string::npos ||
        line.find("WARNING: ThreadSanitizer") != std::string::npos || line.find("    #0") != std::string::npos ||
        line.find("    #1") != std::string::npos || line.find("    #2") != std::string::npos || n < 2) {
      out += line.substr(0, 240);
      out += " | ";
      ++n;
    }
    if (out.size() > maxChars) break;
  }
  return out;
}

// Runs body() in a forked child with a wall-clock budget.  The child writes its own events; if it does not
// end with exit code 0 the parent appends the event describing its fate.  Returns true if the child ended normally.
inline bool forked(int run, int timeoutSec, const std::string &errPath, const std::function<void()> &body,
                   const char *scen = "") {
  fflush(stdout);
  fflush(stderr);
  pid_t pid = fork();
  if (pid < 0) {
    perror("fork");
    exit(2);
  }
  if (pid == 0) {
    std::set_terminate(onTerminate);
    g_run = run;
    g_scen = scen;
    g_btfd = ::open((errPath + ".bt").c_str(), O_WRONLY | O_CREAT | O_TRUNC, 0644);
    {
      void *warm[4];
      backtrace(warm, 4);  // loads the unwinder now, not inside the signal handler
    }
    signal(SIGALRM, onAlarm);
    int dn = ::open("/dev/null", O_WRONLY);
    if (dn >= 0) dup2(dn, 1);
    int ef = ::open(errPath.c_str(), O_WRONLY | O_CREAT | O_TRUNC, 0644);
    if (ef >= 0) dup2(ef, 2);
    alarm(timeoutSec);
    body();
    fflush(stdout);
    _exit(0);
  }
  int status = 0;
  {
    // watchdog: the child's own alarm should end it; if it cannot (handler blocked), kill it a little later
    long waitedMs = 0;
    while (true) {
      pid_t r = waitpid(pid, &status, WNOHANG);
      if (r == pid) break;
      usleep(5000);
      waitedMs += 5;
      if (waitedMs > (long)(timeoutSec + 15) * 1000) {
        kill(pid, SIGKILL);
        waitpid(pid, &status, 0);
        break;
      }
    }
  }
  if (WIFEXITED(status) && WEXITSTATUS(status) == 0) return true;
  if (WIFEXITED(status) && WEXITSTATUS(status) == 4) {
    // alarm: classify the hang from the innermost library frames of the dumped backtrace
    std::ifstream bt(errPath + ".bt");
    std::string sline, stack;
    int kept = 0;
    while (kept < 6 && std::getline(bt, sline)) {
      size_t a = sline.find("(_ZN");
      if (a == std::string::npos) continue;
      size_t b = sline.find_first_of("+)", a);
      std::string name = sline.substr(a + 1, b == std::string::npos ? std::string::npos : b - a - 1);
      if (name.find("coloquinte") == std::string::npos && name.find("Transportation") == std::string::npos) continue;
      stack += name + " ";
      ++kept;
    }
    Value v = ev("Timeout");
    const char *hang = stack.find("TransportationSuccessiveShortestPath") != std::string::npos ? "transport-ssp" : "other";
    v.set("run", run).set("scen", scen).set("stderr", stack).set("kind", "alarm").set("hang", hang).set("san", "none");
    emit(v);
    ::unlink((errPath + ".bt").c_str());
    return false;
  }
  Value v;
  if (WIFSIGNALED(status) && (WTERMSIG(status) == SIGALRM || WTERMSIG(status) == SIGKILL)) {
    v = ev("Timeout");
    v.set("hang", "unknown");
  } else if (WIFEXITED(status) && (WEXITSTATUS(status) == 97 || WEXITSTATUS(status) == 98 || WEXITSTATUS(status) == 96)) {
    v = ev("Sanitizer");
    v.set("kind", WEXITSTATUS(status) == 97 ? "asan" : WEXITSTATUS(status) == 98 ? "ubsan" : "tsan");
  } else if (WIFEXITED(status) && WEXITSTATUS(status) == 3) {
    return false;  // terminate handler already logged
  } else if (WIFEXITED(status) && WEXITSTATUS(status) == 2) {
    v = ev("HarnessError");
  } else {
    v = ev("Abort");
    v.set("kind", WIFSIGNALED(status) ? "signal" : "exit");
    v.set("code", WIFSIGNALED(status) ? WTERMSIG(status) : WEXITSTATUS(status));
  }
  v.set("run", run);
  v.set("scen", scen);
  std::string errText = firstLines(errPath, 8);
  v.set("stderr", errText);
  // class of a sanitizer report (TLC cannot inspect strings)
  const char *san = errText.find("outside the range of representable values") != std::string::npos ? "float-cast"
                    : errText.find("signed integer overflow") != std::string::npos            ? "signed-overflow"
                    : errText.find("division by zero") != std::string::npos                   ? "div-zero"
                    : errText.find("AddressSanitizer") != std::string::npos                   ? "memory"
                    : errText.find("ThreadSanitizer") != std::string::npos                    ? "race"
                                                                                               : "other";
  v.set("san", san);
  if (!v.has("hang")) v.set("hang", "unknown");
  emit(v);
  return false;
}

}  // namespace vt
