"""Pure-Python stand-in for the compiled coloquinte_pybind module (the pybind11 submodule is empty in this sandbox and
nothing can be fetched, so the real module cannot be built).  Only what pycoloquinte/coloquinte.py needs to *read* an
ISPD benchmark is provided; names and semantics follow pycoloquinte/module.cpp."""
import enum


class CellOrientation(enum.Enum):
    N = 0
    S = 1
    W = 2
    E = 3
    FN = 4
    FS = 5
    FW = 6
    FE = 7


class CellRowPolarity(enum.Enum):
    ANY = 0
    SAME = 1
    OPPOSITE = 2
    NW = 3
    SE = 4


class LegalizationModel(enum.Enum):
    L1 = 0
    L2 = 1
    LInf = 2
    L1Squared = 3
    L2Squared = 4
    LInfSquared = 5


class NetModel(enum.Enum):
    BoundToBound = 0
    Star = 1
    Clique = 2
    LightStar = 3


class PlacementStep(enum.Enum):
    LowerBound = 0
    UpperBound = 1
    Detailed = 2
    PenaltyUpdate = 3


class Rectangle:
    def __init__(self, min_x, max_x, min_y, max_y):
        self.min_x, self.max_x, self.min_y, self.max_y = min_x, max_x, min_y, max_y

    @property
    def width(self):
        return self.max_x - self.min_x

    @property
    def height(self):
        return self.max_y - self.min_y


class Row(Rectangle):
    def __init__(self, area, orientation):
        super().__init__(area.min_x, area.max_x, area.min_y, area.max_y)
        self.orientation = orientation


class _Params:
    def __init__(self, effort=3, seed=-1):
        pass


ColoquinteParameters = GlobalPlacerParameters = LegalizationParameters = DetailedPlacerParameters = _Params


class Circuit:
    def __init__(self, nb_cells):
        self.nb_cells = nb_cells
        self.cell_width = [0] * nb_cells
        self.cell_height = [0] * nb_cells
        self.cell_is_fixed = [False] * nb_cells
        self.cell_is_obstruction = [True] * nb_cells
        self.cell_row_polarity = [CellRowPolarity.ANY] * nb_cells
        self.cell_x = [0] * nb_cells
        self.cell_y = [0] * nb_cells
        self.cell_orientation = [CellOrientation.N] * nb_cells
        self.rows = []
        self.nets = []

    def add_net(self, cells, x_offsets, y_offsets, weight=1.0):
        if not (len(cells) == len(x_offsets) == len(y_offsets)):
            raise RuntimeError("Inconsistent number of pins for the net")
        if len(cells) == 0:
            return
        self.nets.append((list(cells), list(x_offsets), list(y_offsets), weight))

    @property
    def row_height(self):
        if not self.rows:
            raise RuntimeError("Cannot compute row height as no row has been defined")
        h = self.rows[0].height
        for r in self.rows:
            if r.height != h:
                raise RuntimeError("The circuit contains rows of different heights")
        return h

    def check(self):
        n = self.nb_cells
        for v in (self.cell_width, self.cell_height, self.cell_is_fixed, self.cell_is_obstruction, self.cell_x, self.cell_y, self.cell_orientation):
            if len(v) != n:
                raise RuntimeError("Size mismatch")
