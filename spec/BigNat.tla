------------------------------- MODULE BigNat -------------------------------
(***************************************************************************)
(* Non-negative wide integers as little-endian sequences of base-2^15      *)
(* digits (TLC integers are 32-bit).  Enough for cost sums                 *)
(* (width x displacement at coordinates up to 2^22) and areas.             *)
(***************************************************************************)
EXTENDS Integers, Sequences
Base == 32768

RECURSIVE Norm(_, _)
\* propagate carries; s may contain digits >= Base (but < 2^30)
Norm(s, carry) ==
    IF s = <<>> THEN (IF carry = 0 THEN <<>> ELSE <<carry % Base>> \o Norm(<<>>, carry \div Base))
    ELSE LET v == Head(s) + carry IN <<v % Base>> \o Norm(Tail(s), v \div Base)
RECURSIVE Strip(_)
Strip(s) == IF s # <<>> /\ s[Len(s)] = 0 THEN Strip(SubSeq(s, 1, Len(s) - 1)) ELSE s
Canon(s) == Strip(Norm(s, 0))

FromInt(n) == Canon(<<n % Base, (n \div Base) % Base, n \div (Base * Base)>>)   \* 0 <= n < 2^31
Digit(s, i) == IF i <= Len(s) THEN s[i] ELSE 0
MaxLen(a, b) == IF Len(a) > Len(b) THEN Len(a) ELSE Len(b)
Add(a, b) == Canon([i \in 1..MaxLen(a, b) |-> Digit(a, i) + Digit(b, i)])
\* product of two non-negative ints below 2^30
Mul(x, y) ==
    LET x0 == x % Base x1 == x \div Base y0 == y % Base y1 == y \div Base
    IN Add(Add(Canon(<<x0 * y0>>), Canon(<<0, x1 * y0>>)), Add(Canon(<<0, x0 * y1>>), Canon(<<0, 0, x1 * y1>>)))
RECURSIVE SumBig(_, _)
SumBig(f, n) == IF n = 0 THEN <<>> ELSE Add(f[n], SumBig(f, n - 1))
Eq(a, b) == Canon(a) = Canon(b)

SelfTest ==
    /\ FromInt(0) = <<>> /\ FromInt(32768) = <<0, 1>> /\ FromInt(1073741824) = <<0, 0, 1>>
    /\ Mul(3, 5) = FromInt(15) /\ Mul(40000, 50000) = Add(FromInt(2000000000), <<>>)
    /\ Mul(4194304, 8388608) = <<0, 0, 0, 1>>
    /\ Add(FromInt(2147483647), FromInt(1)) = <<0, 0, 2>>
    /\ \A a \in {0, 1, 32767, 32768, 40000}, b \in {0, 3, 32768, 40000} : Mul(a, b) = Add(FromInt(a * b), <<>>)
=============================================================================
