------------------------------ MODULE BisectImpl ------------------------------
(***************************************************************************)
(* C16 implementation layer: the bisection rule by which the rough         *)
(* legalizer redistributes the cells of two bins (DensityLegalizer::       *)
(* rebisect = computeCellCosts + findIdealSplitPos +                       *)
(* findConstrainedSplitPos + doSplit).  The cells are sorted by            *)
(* cost = distance to bin 1 - distance to bin 2; the ideal split sends the *)
(* cells with cost <= 0 to bin 1; the constrained split then moves the     *)
(* boundary, one cell at a time, away from the bin that overflows, and     *)
(* stops before the overflow of the other bin would become the larger one. *)
(* Transcribed as pure operators and evaluated by TLC on every small       *)
(* instance; every instance is replayed into the real functions (exposed   *)
(* by the COLOQUINTE_VERIF hook).                                          *)
(*                                                                         *)
(* Checked on the transcription: the result is a threshold split of the    *)
(* sorted order (so the bins partition the cells and no cell of bin 1 is   *)
(* dearer than a cell of bin 2); a split that overflows nowhere is left    *)
(* alone; the boundary only moves away from an overflowing bin; the larger *)
(* of the two overflows never grows; cells are never pushed into a bin of  *)
(* zero capacity.                                                          *)
(***************************************************************************)
EXTENDS Integers, Sequences, FiniteSets, TLC, Json
CONSTANTS NC, DMax, CapMax, KMax

VARIABLES cost, dem, c1, c2
vars == <<cost, dem, c1, c2>>

Sorted(f) == \A k \in 1..(NC - 1) : f[k] <= f[k + 1]
Init == /\ cost \in [1..NC -> -KMax..KMax] /\ Sorted(cost)
        /\ dem \in [1..NC -> 1..DMax]
        /\ c1 \in 0..CapMax /\ c2 \in 0..CapMax
Next == UNCHANGED vars
Spec == Init /\ [][Next]_vars

RECURSIVE SumTo(_, _, _)
SumTo(f, a, b) == IF a > b THEN 0 ELSE f[a] + SumTo(f, a + 1, b)
\* split position sp (0..NC): cells 1..sp go to bin 1, cells sp+1..NC to bin 2
D1(sp) == SumTo(dem, 1, sp)
D2(sp) == SumTo(dem, sp + 1, NC)
Max2(a, b) == IF a > b THEN a ELSE b
Over1(sp) == Max2(0, D1(sp) - c1)
Over2(sp) == Max2(0, D2(sp) - c2)

\* findIdealSplitPos: index of the first cell with positive cost (0-based) = number of cells with cost <= 0
Ideal == Cardinality({ k \in 1..NC : cost[k] <= 0 })

\* findConstrainedSplitPos, first loop: give cells of bin 1 back to bin 2 while bin 1 overflows
RECURSIVE Left(_)
Left(sp) ==
    IF sp > 0 /\ D1(sp) - c1 > 0 /\ c2 > 0
    THEN LET d == dem[sp] IN
         IF c1 > 0 /\ D1(sp) - c1 < D2(sp) - c2 + d THEN sp ELSE Left(sp - 1)
    ELSE sp
\* second loop: give cells of bin 2 to bin 1 while bin 2 overflows
RECURSIVE Right(_)
Right(sp) ==
    IF sp < NC /\ D2(sp) - c2 > 0 /\ c1 > 0
    THEN LET d == dem[sp + 1] IN
         IF c2 > 0 /\ D2(sp) - c2 < D1(sp) - c1 + d THEN sp ELSE Right(sp + 1)
    ELSE sp
Split == Right(Left(Ideal))

---------------------------------------------------------------------------
TypeOK == Split \in 0..NC /\ Ideal \in 0..NC
\* nothing to repair: the ideal split is kept
Stable == (Over1(Ideal) = 0 /\ Over2(Ideal) = 0) => Split = Ideal
\* the boundary moves away from the bin that overflowed at the ideal split, never towards it
Direction == /\ (Split < Ideal => D1(Ideal) > c1)
             /\ (Split > Ideal => (D2(Ideal) > c2 \/ D2(Left(Ideal)) > c2))
\* the larger overflow does not grow (bins of positive capacity)
NoWorse == (c1 > 0 /\ c2 > 0) => Max2(Over1(Split), Over2(Split)) <= Max2(Over1(Ideal), Over2(Ideal))
\* a bin without capacity receives no cell it did not have at the ideal split
NoDumping == /\ (c2 = 0 => Split >= Ideal)
             /\ (c1 = 0 => Split <= Ideal)
\* when the two bins can hold everything and some split overflows nowhere, is one found?  (informational: evaluated, not claimed)
SomeFit == \E sp \in 0..NC : D1(sp) <= c1 /\ D2(sp) <= c2
FitFound == SomeFit => (Over1(Split) = 0 /\ Over2(Split) = 0)

Emit == PrintT(ToJson([k |-> "bisect", cost |-> cost, dem |-> dem, c1 |-> c1, c2 |-> c2, ideal |-> Ideal, split |-> Split]))
=============================================================================
