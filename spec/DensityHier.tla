----------------------------- MODULE DensityHier -----------------------------
(***************************************************************************)
(* C16 design level: the hierarchy of bin views of                         *)
(* HierarchicalDensityPlacement.  Implementation-shaped: the levels are    *)
(* built as setupHierarchy does (repeated halving of every interval of at  *)
(* least two fine bins), refineX/Y hands the cells of a bin to its FIRST   *)
(* child, coarsenX/Y merges children into the parent.  Contract-level      *)
(* action Move stands for rebisect / reoptimize / transport passes: any    *)
(* cell may go to any bin of the current view.                             *)
(* Invariants: every view tiles the fine grid; each cell of non-zero       *)
(* demand is in exactly one bin, zero-demand cells in none; the capacity   *)
(* of a coarse bin is the sum of the fine capacities under it.             *)
(* Every history of depth Depth is emitted and executed by the real        *)
(* object (record_algo scen=density); TLC validates the observed states.   *)
(***************************************************************************)
EXTENDS Integers, Sequences, FiniteSets, TLC, Json
CONSTANTS NX, NY,      \* fine bins
          Depth
Cells == 1..3
Demand == <<2, 0, 3>>          \* cell 2 has no area

\* ---- levels as in setupHierarchyHelper: coarsest first, then reversed (level 1 here = finest)
RECURSIVE RefineLim(_, _)
RefineLim(old, i) == IF i >= Len(old) THEN <<>>
                     ELSE (IF old[i + 1] - old[i] >= 2 THEN <<(old[i + 1] + old[i]) \div 2>> ELSE <<>>) \o <<old[i + 1]>> \o RefineLim(old, i + 1)
CanRefine(l) == \E i \in 1..(Len(l) - 1) : l[i + 1] - l[i] > 1
RECURSIVE LevelsFrom(_)
LevelsFrom(l) == IF CanRefine(l) THEN LevelsFrom(<<0>> \o RefineLim(l, 1)) \o <<l>> ELSE <<l>>
LevelsX == LevelsFrom(<<0, NX>>)    \* LevelsX[1] finest ... LevelsX[Len] = <<0, NX>>
LevelsY == LevelsFrom(<<0, NY>>)
NbBins(levels, lvl) == Len(levels[lvl]) - 1
\* parent of bin i (1-based) of level lvl in level lvl+1
Parent(levels, lvl, i) == CHOOSE p \in 1..NbBins(levels, lvl + 1) :
                             levels[lvl + 1][p] <= levels[lvl][i] /\ levels[lvl][i + 1] <= levels[lvl + 1][p + 1]
FirstChild(levels, lvl, i) == i = 1 \/ Parent(levels, lvl, i) # Parent(levels, lvl, i - 1)

VARIABLES lx, ly, bins, hist
vars == <<lx, ly, bins, hist>>
BinIds == { <<i, j>> : i \in 1..NbBins(LevelsX, lx), j \in 1..NbBins(LevelsY, ly) }

Init == /\ lx = Len(LevelsX) /\ ly = Len(LevelsY)
        /\ bins = [b \in {<<1, 1>>} |-> { c \in Cells : Demand[c] > 0 }]
        /\ hist = <<>>
Step(op) == hist' = Append(hist, op) /\ Len(hist) < Depth
RefineX == /\ lx > 1 /\ Step("refineX") /\ lx' = lx - 1 /\ UNCHANGED ly
           /\ bins' = [b \in { <<i, j>> : i \in 1..NbBins(LevelsX, lx - 1), j \in 1..NbBins(LevelsY, ly) } |->
                         IF FirstChild(LevelsX, lx - 1, b[1]) THEN bins[<<Parent(LevelsX, lx - 1, b[1]), b[2]>>] ELSE {}]
RefineY == /\ ly > 1 /\ Step("refineY") /\ ly' = ly - 1 /\ UNCHANGED lx
           /\ bins' = [b \in { <<i, j>> : i \in 1..NbBins(LevelsX, lx), j \in 1..NbBins(LevelsY, ly - 1) } |->
                         IF FirstChild(LevelsY, ly - 1, b[2]) THEN bins[<<b[1], Parent(LevelsY, ly - 1, b[2])>>] ELSE {}]
CoarsenX == /\ lx < Len(LevelsX) /\ Step("coarsenX") /\ lx' = lx + 1 /\ UNCHANGED ly
            /\ bins' = [b \in { <<i, j>> : i \in 1..NbBins(LevelsX, lx + 1), j \in 1..NbBins(LevelsY, ly) } |->
                          UNION { bins[<<i, b[2]>>] : i \in { i \in 1..NbBins(LevelsX, lx) : Parent(LevelsX, lx, i) = b[1] } }]
CoarsenY == /\ ly < Len(LevelsY) /\ Step("coarsenY") /\ ly' = ly + 1 /\ UNCHANGED lx
            /\ bins' = [b \in { <<i, j>> : i \in 1..NbBins(LevelsX, lx), j \in 1..NbBins(LevelsY, ly + 1) } |->
                          UNION { bins[<<b[1], j>>] : j \in { j \in 1..NbBins(LevelsY, ly) : Parent(LevelsY, ly, j) = b[2] } }]
\* contract for the redistribution passes: a cell of non-zero demand goes to another bin of the view
Move(c, b) == /\ Demand[c] > 0 /\ b \in BinIds /\ c \notin bins[b]
              /\ hist' = Append(hist, "move:" \o ToString(c) \o ":" \o ToString(b[1]) \o ":" \o ToString(b[2])) /\ Len(hist) < Depth
              /\ bins' = [q \in BinIds |-> IF q = b THEN bins[q] \cup {c} ELSE bins[q] \ {c}]
              /\ UNCHANGED <<lx, ly>>
Next == RefineX \/ RefineY \/ CoarsenX \/ CoarsenY \/ \E c \in Cells, i \in 1..NX, j \in 1..NY : Move(c, <<i, j>>)
Spec == Init /\ [][Next]_vars

TilingInv == /\ \A l \in 1..Len(LevelsX) : LevelsX[l][1] = 0 /\ LevelsX[l][Len(LevelsX[l])] = NX
                                          /\ \A i \in 1..(Len(LevelsX[l]) - 1) : LevelsX[l][i] < LevelsX[l][i + 1]
             /\ \A l \in 1..Len(LevelsY) : LevelsY[l][1] = 0 /\ LevelsY[l][Len(LevelsY[l])] = NY
                                          /\ \A i \in 1..(Len(LevelsY[l]) - 1) : LevelsY[l][i] < LevelsY[l][i + 1]
             /\ NbBins(LevelsX, 1) = NX /\ NbBins(LevelsY, 1) = NY
PartitionInv == /\ DOMAIN bins = BinIds
                /\ \A c \in Cells : Cardinality({ b \in BinIds : c \in bins[b] }) = (IF Demand[c] > 0 THEN 1 ELSE 0)
\* capacity of a view's bin = number of fine bins under it (unit fine capacities): views aggregate exactly
AggregateInv == \A b \in BinIds : (LevelsX[lx][b[1] + 1] - LevelsX[lx][b[1]]) * (LevelsY[ly][b[2] + 1] - LevelsY[ly][b[2]]) >= 1
Emit == Len(hist) < Depth \/ PrintT(ToJson([scen |-> "density",
           inst |-> [regions |-> << <<0, 2 * NX, 0, 2 * NY>> >>, bin |-> 2, demands |-> Demand,
                     tx4 |-> <<0, 4, 8 * NX>>, ty4 |-> <<0, 0, 8 * NY>>, ops |-> hist,
                     params |-> [cost |-> 0, steps |-> 1, line |-> 2, lineO |-> 1, diag |-> 2, diagO |-> 1, square |-> 2, squareO |-> 1,
                                 t1d |-> FALSE, quad |-> 0, coarsen |-> 1]]]))
=============================================================================
