----------------------------- MODULE DensityOps -----------------------------
(***************************************************************************)
(* C16 contract operators over an observed state of the hierarchical       *)
(* density placement: bin limits tile the placement area, the capacity of  *)
(* a bin is the free area (regions) inside it, the bins partition the      *)
(* cells of non-zero demand, reported coordinates lie inside the bin.      *)
(***************************************************************************)
EXTENDS Integers, Sequences, FiniteSets
DMin(a, b) == IF a < b THEN a ELSE b
DMax(a, b) == IF a > b THEN a ELSE b
RECURSIVE DSum(_, _)
DSum(f, n) == IF n = 0 THEN 0 ELSE f[n] + DSum(f, n - 1)
SetMinD(S) == CHOOSE v \in S : \A u \in S : v <= u
SetMaxD(S) == CHOOSE v \in S : \A u \in S : v >= u

\* regions: sequence of <<x0, x1, y0, y1>>
AreaOf(regions) == [x0 |-> SetMinD({ regions[k][1] : k \in 1..Len(regions) }), x1 |-> SetMaxD({ regions[k][2] : k \in 1..Len(regions) }),
                    y0 |-> SetMinD({ regions[k][3] : k \in 1..Len(regions) }), y1 |-> SetMaxD({ regions[k][4] : k \in 1..Len(regions) })]
Overlap1(a0, a1, b0, b1) == DMax(0, DMin(a1, b1) - DMax(a0, b0))
FreeAreaIn(regions, x0, x1, y0, y1) ==
    DSum([k \in 1..Len(regions) |-> Overlap1(regions[k][1], regions[k][2], x0, x1) * Overlap1(regions[k][3], regions[k][4], y0, y1)], Len(regions))

Tiling(limX, limY, regions) ==
    LET a == AreaOf(regions) IN
    /\ limX[1] = a.x0 /\ limX[Len(limX)] = a.x1 /\ limY[1] = a.y0 /\ limY[Len(limY)] = a.y1
    /\ \A i \in 1..(Len(limX) - 1) : limX[i] <= limX[i + 1]
    /\ \A j \in 1..(Len(limY) - 1) : limY[j] <= limY[j + 1]

CapacityExact(bins, limX, limY, regions) ==
    \A k \in 1..Len(bins) : bins[k].cap = FreeAreaIn(regions, limX[bins[k].i], limX[bins[k].i + 1], limY[bins[k].j], limY[bins[k].j + 1])

\* every cell of non-zero demand is in exactly one bin, zero-demand cells in none, and the object's own
\* cell -> bin map agrees
BinsOf(bins, c) == { k \in 1..Len(bins) : \E q \in 1..Len(bins[k].cells) : bins[k].cells[q] = c }
Occurrences(bins, c) == DSum([k \in 1..Len(bins) |-> Cardinality({ q \in 1..Len(bins[k].cells) : bins[k].cells[q] = c })], Len(bins))
Partition(bins, demands, cells) ==
    \A c \in 1..Len(demands) :
       IF demands[c] = 0 THEN Occurrences(bins, c) = 0
       ELSE /\ Occurrences(bins, c) = 1
            /\ LET k == CHOOSE k \in BinsOf(bins, c) : TRUE IN cells[c].bx = bins[k].i /\ cells[c].by = bins[k].j

\* the spread coordinate reported for a cell lies inside its bin (floor / ceil of the float are logged)
CoordInside(bins, demands, cells, limX, limY) ==
    \A c \in 1..Len(demands) :
       (demands[c] > 0 /\ cells[c].bx >= 1 /\ cells[c].by >= 1) =>
          /\ limX[cells[c].bx] <= cells[c].sx1 /\ cells[c].sx0 <= limX[cells[c].bx + 1]
          /\ limY[cells[c].by] <= cells[c].sy1 /\ cells[c].sy0 <= limY[cells[c].by + 1]
=============================================================================
