----------------------------- MODULE DetailedOps -----------------------------
(***************************************************************************)
(* Pure operators of the row data structure of detailed placement over a   *)
(* placement record st = [len, repaired, w, pol, seg, x, o]; shared by the *)
(* model DetailedRows.tla and by the trace specification TraceAlgo.tla.    *)
(* See DetailedRows.tla for the description.                               *)
(***************************************************************************)
EXTENDS Integers, Sequences, FiniteSets, Orient
CellsOf(st) == DOMAIN st.w
Segs == 1..3
SegOrient == <<"N", "FS", "S">>
Div2(a) == IF a >= 0 THEN a \div 2 ELSE -((-a) \div 2)     \* C++ integer division truncates toward zero

InSeg(st, s) == { c \in CellsOf(st) : st.seg[c] = s }
PredOf(st, c) == LET cands == { d \in InSeg(st, st.seg[c]) : st.x[d] < st.x[c] } IN
                 IF cands = {} THEN 0 ELSE CHOOSE d \in cands : \A e \in cands : st.x[e] <= st.x[d]
SuccOf(st, c) == LET cands == { d \in InSeg(st, st.seg[c]) : st.x[d] > st.x[c] } IN
                 IF cands = {} THEN 0 ELSE CHOOSE d \in cands : \A e \in cands : st.x[e] >= st.x[d]
FirstOf(st, s) == LET cs == InSeg(st, s) IN IF cs = {} THEN 0 ELSE CHOOSE d \in cs : \A e \in cs : st.x[d] <= st.x[e]
BBefore(st, c) == IF PredOf(st, c) = 0 THEN 0 ELSE st.x[PredOf(st, c)] + st.w[PredOf(st, c)]
BAfter(st, c) == IF SuccOf(st, c) = 0 THEN st.len ELSE st.x[SuccOf(st, c)]
SiteBegin(st, s, p) == IF p = 0 THEN 0 ELSE st.x[p] + st.w[p]
SiteEnd(st, s, p) == LET n == IF p = 0 THEN FirstOf(st, s) ELSE SuccOf(st, p) IN IF n = 0 THEN st.len ELSE st.x[n]

\* orientation a cell takes in a segment: prescribed by its polarity, unchanged for ANY
InRow(p, ro) == CellOrientationInRow(p, ro)
NewOrient(st, c, s) == LET o == InRow(st.pol[c], SegOrient[s]) IN IF o = "UNKNOWN" THEN st.o[c] ELSE o
RowAllowed(st, c, s) == InRow(st.pol[c], SegOrient[s]) # "INVALID"

NoOverlapSeg(st) == \A c, d \in CellsOf(st) : (c # d /\ st.seg[c] = st.seg[d]) => (st.x[c] + st.w[c] <= st.x[d] \/ st.x[d] + st.w[d] <= st.x[c])
Inside(st) == \A c \in CellsOf(st) : st.x[c] >= 0 /\ st.x[c] + st.w[c] <= st.len /\ st.seg[c] \in Segs
LegalRows(st) == NoOverlapSeg(st) /\ Inside(st)
OrientOKRows(st) == \A c \in CellsOf(st) : st.o[c] # "INVALID" /\ (st.pol[c] # "ANY" => st.o[c] = InRow(st.pol[c], SegOrient[st.seg[c]]))

CanSwap(st, a, b) ==
    /\ a # b
    /\ (st.repaired => RowAllowed(st, a, st.seg[b]) /\ RowAllowed(st, b, st.seg[a]))
    /\ \/ (st.seg[a] = st.seg[b] /\ (PredOf(st, a) = b \/ PredOf(st, b) = a))
       \/ (BAfter(st, b) - BBefore(st, b) >= st.w[a] /\ BAfter(st, a) - BBefore(st, a) >= st.w[b])
SwapRes(st, a, b) ==
    LET adj1 == st.seg[a] = st.seg[b] /\ PredOf(st, a) = b
        adj2 == st.seg[a] = st.seg[b] /\ PredOf(st, b) = a
        xa == IF adj1 THEN st.x[b] ELSE IF adj2 THEN st.x[a] + st.w[b] ELSE Div2(BBefore(st, b) + BAfter(st, b) - st.w[a])
        xb == IF adj1 THEN st.x[b] + st.w[a] ELSE IF adj2 THEN st.x[a] ELSE Div2(BBefore(st, a) + BAfter(st, a) - st.w[b])
    IN [st EXCEPT !.x = [st.x EXCEPT ![a] = xa, ![b] = xb],
                  !.seg = [st.seg EXCEPT ![a] = st.seg[b], ![b] = st.seg[a]],
                  !.o = [st.o EXCEPT ![a] = NewOrient(st, a, st.seg[b]), ![b] = NewOrient(st, b, st.seg[a])]]
CanInsert(st, c, s, p) ==
    /\ c # p /\ ~(st.seg[c] = s /\ PredOf(st, c) = p) /\ (IF p = 0 THEN TRUE ELSE st.seg[p] = s)
    /\ (st.repaired => RowAllowed(st, c, s))
    /\ SiteEnd(st, s, p) - SiteBegin(st, s, p) >= st.w[c]
InsertRes(st, c, s, p) ==
    [st EXCEPT !.x = [st.x EXCEPT ![c] = Div2(SiteEnd(st, s, p) - st.w[c] + SiteBegin(st, s, p))],
               !.seg = [st.seg EXCEPT ![c] = s],
               !.o = [st.o EXCEPT ![c] = NewOrient(st, c, s)]]

=============================================================================
