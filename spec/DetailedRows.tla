----------------------------- MODULE DetailedRows -----------------------------
(***************************************************************************)
(* C02 / C04 / C05 design level: the row data structure of detailed        *)
(* placement (DetailedPlacement): per row segment an ordered list of       *)
(* cells; swap and insert with their guards and target positions           *)
(* transcribed from canSwap / positionsOnSwap / canInsert /                *)
(* positionOnInsert / place (orientation from the row polarity).           *)
(* All operators are pure functions of a placement record                  *)
(*    st = [w, pol, seg, x, o]  (functions over the cells)                 *)
(* so that the trace specification can apply them to states observed on    *)
(* the real object.  Segments: three rows of height 1 stacked at           *)
(* y = 0, 1, 2 with orientations N, FS, S, each [0, SegLen).               *)
(* TLC explores every sequence of feasible swaps and inserts from every    *)
(* legal initial placement of the configured scope.                        *)
(***************************************************************************)
EXTENDS Integers, Sequences, FiniteSets, TLC, Json, DetailedOps
CONSTANTS NCells, SegLen, WMax, Pols, RepairedGuards

Cells == 1..NCells

VARIABLE st
Init == /\ st \in [len : {SegLen}, repaired : {RepairedGuards}, w : [Cells -> 1..WMax], pol : [Cells -> Pols], seg : [Cells -> Segs], x : [Cells -> 0..(SegLen - 1)], o : [Cells -> {"N"}]]
        /\ LegalRows(st)
        /\ \A c \in Cells : RowAllowed(st, c, st.seg[c])
        /\ st.o = [c \in Cells |-> IF st.pol[c] = "ANY" THEN "N" ELSE InRow(st.pol[c], SegOrient[st.seg[c]])]
Swap(a, b) == CanSwap(st, a, b) /\ st' = SwapRes(st, a, b)
Insert(c, s, p) == CanInsert(st, c, s, p) /\ st' = InsertRes(st, c, s, p)
Next == (\E a, b \in Cells : a < b /\ Swap(a, b)) \/ (\E c \in Cells, s \in Segs, p \in Cells \cup {0} : Insert(c, s, p))
Spec == Init /\ [][Next]_st

Legal == LegalRows(st)
OrientationsHonoured == OrientOKRows(st)
FrameInv == \A c \in Cells : st.w[c] \in 1..WMax /\ st.pol[c] \in Pols     \* widths and polarities never change
Emit == PrintT(ToJson([k |-> "detstate", len |-> SegLen,
                       cells |-> [c \in Cells |-> [w |-> st.w[c], pol |-> st.pol[c], seg |-> st.seg[c], x |-> st.x[c], o |-> st.o[c]]],
                       swaps |-> { <<a, b>> \in Cells \X Cells : a < b /\ CanSwap(st, a, b) },
                       inserts |-> { <<c, s, p>> \in Cells \X Segs \X (Cells \cup {0}) : CanInsert(st, c, s, p) }]))
=============================================================================
