------------------------------ MODULE DetailedWl ------------------------------
(***************************************************************************)
(* C05 design level: wirelength under the moves of detailed placement.     *)
(* The optimiser accepts a swap or an insert only if it decreases `value`, *)
(* the wirelength computed with pin offsets FROZEN at the orientations the *)
(* cells had when the incremental model was built (IncrNetModel); the      *)
(* property speaks about `wl`, the true wirelength with the current        *)
(* orientations.  Rows N / FS / S as in DetailedRows; a pin offset dx is   *)
(* mirrored (w - dx) for orientations FN / S, dy mirrored for FS / S       *)
(* (cells are one row high: h = 1).                                        *)
(*  - WlFollowsValue: as long as no cell is re-oriented, wl = value, so    *)
(*    every accepted move decreases the true wirelength.                   *)
(*  - WlNeverWorse (the property itself) holds when no cell carries a      *)
(*    polarity (cfg DetailedWl_any) and is VIOLATED with polarities        *)
(*    (cfg DetailedWl_polar): the open finding                             *)
(*    frozen-pin-offsets-after-reorientation, at design level.             *)
(***************************************************************************)
EXTENDS Integers, Sequences, FiniteSets, TLC, DetailedOps
CONSTANTS NCells, SegLen, Pols
Cells == 1..NCells
\* nets over pins <<cell, dx, dy>>; cell 0 = fixed pin at absolute (dx, dy)
Nets == << << <<1, 0, 0>>, <<2, 1, 1>> >>, << <<2, 0, 0>>, <<0, SegLen, 0>> >>, << <<1, 1, 1>>, <<0, 0, 2>> >> >>

MirX(o) == o \in {"FN", "S"}
MirY(o) == o \in {"FS", "S"}
PinXY(st, orient, pin) ==
    IF pin[1] = 0 THEN <<pin[2], pin[3]>>
    ELSE LET c == pin[1] IN
         <<st.x[c] + (IF MirX(orient[c]) THEN st.w[c] - pin[2] ELSE pin[2]),
           (st.seg[c] - 1) + (IF MirY(orient[c]) THEN 1 - pin[3] ELSE pin[3])>>
SMax(S) == CHOOSE v \in S : \A u \in S : u <= v
SMin(S) == CHOOSE v \in S : \A u \in S : u >= v
RECURSIVE SumN(_, _)
SumN(f, n) == IF n = 0 THEN 0 ELSE f[n] + SumN(f, n - 1)
Wl(st, orient) == SumN([k \in 1..Len(Nets) |->
                     LET ps == { PinXY(st, orient, Nets[k][j]) : j \in 1..Len(Nets[k]) }
                         xs == { p[1] : p \in ps } ys == { p[2] : p \in ps }
                     IN (SMax(xs) - SMin(xs)) + (SMax(ys) - SMin(ys))], Len(Nets))

VARIABLES st, frozen      \* frozen: the orientations at construction of the incremental model
vars == <<st, frozen>>
Value(s) == Wl(s, frozen)
TrueWl(s) == Wl(s, s.o)

Init == /\ st \in [len : {SegLen}, repaired : {TRUE}, w : [Cells -> {1}], pol : [Cells -> Pols], seg : [Cells -> Segs],
                   x : [Cells -> 0..(SegLen - 1)], o : [Cells -> {"N"}]]
        /\ LegalRows(st) /\ \A c \in Cells : RowAllowed(st, c, st.seg[c])
        /\ st.o = [c \in Cells |-> IF st.pol[c] = "ANY" THEN "N" ELSE InRow(st.pol[c], SegOrient[st.seg[c]])]
        /\ frozen = st.o
\* the optimiser's acceptance rule: strictly better frozen-offset value
AcceptSwap(a, b) == CanSwap(st, a, b) /\ Value(SwapRes(st, a, b)) < Value(st) /\ st' = SwapRes(st, a, b) /\ UNCHANGED frozen
AcceptInsert(c, s, p) == CanInsert(st, c, s, p) /\ Value(InsertRes(st, c, s, p)) < Value(st) /\ st' = InsertRes(st, c, s, p) /\ UNCHANGED frozen
Next == (\E a, b \in Cells : a < b /\ AcceptSwap(a, b)) \/ (\E c \in Cells, s \in Segs, p \in Cells \cup {0} : AcceptInsert(c, s, p))
Spec == Init /\ [][Next]_vars

ValueDecreases == [][Value(st') < Value(st)]_vars
WlFollowsValue == (st.o = frozen) => TrueWl(st) = Value(st)
WlNeverWorse == [][TrueWl(st') <= TrueWl(st)]_vars
Terminates == <>[](~ENABLED Next)
=============================================================================
