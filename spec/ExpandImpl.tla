------------------------------ MODULE ExpandImpl ------------------------------
(***************************************************************************)
(* C18 implementation layer: the loop of Circuit::expandCellsToDensity,    *)
(* one action per cell.  All movable cells are multiplied by the common    *)
(* factor F = target * available / movable area; the fractional width of   *)
(* each cell is rounded down and what is lost is carried to the following  *)
(* cells as an AREA (missing), handed back one unit of width at a time as  *)
(* soon as it amounts to one unit of width of the current cell.            *)
(*                                                                         *)
(* Exact rational arithmetic: every quantity is an integer multiple of     *)
(* 1/S with S = 64 * 64 * (movable area), so the model has no rounding of  *)
(* its own (the code computes in double: the replay reports how often the  *)
(* two agree, ties at exact integers are where they may differ).           *)
(*                                                                         *)
(* Checked: after every cell the carried area is below one unit of width   *)
(* of that cell (0 <= missing < h); area is conserved (new area + missing  *)
(* = F * old area, cell by cell, when no cell hits the width cap); hence   *)
(* at the end the movable area is at most target * available and misses it *)
(* by less than the height of the last cell; no cell becomes narrower      *)
(* unless the cap is below its width.                                      *)
(***************************************************************************)
EXTENDS Integers, Sequences, FiniteSets, TLC, Json
CONSTANTS NC, WMax, HSet, Avails, Targets, Caps, RowW

VARIABLES w, h,        \* widths and heights of the movable cells, in circuit order
          avail, p64,  \* available row area, target density x 64
          cap64,       \* width cap x 64, as a fraction of the row width RowW
          i,           \* next cell (NC + 1 when done)
          nw,          \* new widths so far
          missing      \* carried area x S
vars == <<w, h, avail, p64, cap64, i, nw, missing>>

RECURSIVE SumTo(_, _)
SumTo(f, n) == IF n = 0 THEN 0 ELSE f[n] + SumTo(f, n - 1)
Area == SumTo([k \in 1..NC |-> w[k] * h[k]], NC)
S == 4096 * Area                                  \* common denominator
\* the call does something only below the target
Active == Area > 0 /\ avail > 0 /\ 64 * Area < p64 * avail
\* fractional width of cell k, x S:  w F = w p64 avail / (64 Area)  ->  x S = w p64 avail 64
FracS(k) == LET f == w[k] * p64 * avail * 64
                c == cap64 * RowW * 64 * Area       \* (cap64 / 64) RowW, x S
            IN IF f > c THEN c ELSE f
Capped(k) == w[k] * p64 * avail * 64 > cap64 * RowW * 64 * Area

Init == /\ w \in [1..NC -> 1..WMax] /\ h \in [1..NC -> HSet]
        /\ avail \in Avails /\ p64 \in Targets /\ cap64 \in Caps
        /\ i = 1 /\ nw = <<>> /\ missing = 0
\* while (missing >= h) { ++newW; missing -= h; }
RECURSIVE Flush(_, _, _)
Flush(width, miss, hk) == IF miss >= hk * S THEN Flush(width + 1, miss - hk * S, hk) ELSE <<width, miss>>
Step == /\ Active /\ i <= NC
        /\ LET f == FracS(i)
               fl == f \div S                         \* (int) fracW
               m1 == missing + h[i] * (f - fl * S)    \* missingArea += h * (fracW - newW)
               r == Flush(fl, m1, h[i]) IN
           /\ nw' = Append(nw, r[1]) /\ missing' = r[2]
        /\ i' = i + 1 /\ UNCHANGED <<w, h, avail, p64, cap64>>
Next == Step
Spec == Init /\ [][Next]_vars

---------------------------------------------------------------------------
Done == ~Active \/ i = NC + 1
Result == IF Active THEN nw ELSE w
NewAreaS == SumTo([k \in 1..Len(nw) |-> nw[k] * h[k] * S], Len(nw))
FracAreaS == SumTo([k \in 1..Len(nw) |-> h[k] * FracS(k)], Len(nw))
\* carried area below one unit of width of the cell just handled
CarryBounded == (Active /\ i > 1) => (missing >= 0 /\ missing < h[i - 1] * S)
\* nothing is created or lost: rounded area + carry = fractional area, cell by cell
Conservation == Active => NewAreaS + missing = FracAreaS
\* consequences at the end, when no cell hit the cap: at most the target, short of it by less than one unit of width of the last cell
NewArea == SumTo([k \in 1..Len(nw) |-> nw[k] * h[k]], Len(nw))
AtMostTarget == (Active /\ i = NC + 1 /\ \A k \in 1..NC : ~Capped(k)) => 64 * NewArea <= p64 * avail
NearTarget == (Active /\ i = NC + 1 /\ \A k \in 1..NC : ~Capped(k)) => 64 * (NewArea + h[NC]) > p64 * avail
\* no cell becomes narrower unless the cap is below its width
NeverNarrower == \A k \in 1..Len(nw) : (Active /\ cap64 * RowW >= 64 * w[k]) => nw[k] >= w[k]
Emit == ~Done \/ PrintT(ToJson([k |-> "expandimpl", w |-> w, h |-> h, avail |-> avail, p64 |-> p64, cap64 |-> cap64, roww |-> RowW,
                                active |-> Active, res |-> Result]))
=============================================================================
