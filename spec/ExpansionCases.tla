--------------------------- MODULE ExpansionCases ---------------------------
(***************************************************************************)
(* C18, spec -> code -> spec: all tiny expansion problems.  One or two      *)
(* rows of height 1 or 2 and width RowW, up to three cells (movable or      *)
(* fixed, widths 0..WMax, heights 1..2, one may be an obstruction cutting   *)
(* a row), dyadic targets p/64, margins m/2, caps.  Each instance is        *)
(* emitted for execution by the real expandCellsToDensity /                 *)
(* expandCellsByFactor; TraceCircuit.ExpandFails judges what comes back.    *)
(***************************************************************************)
EXTENDS Integers, Sequences, FiniteSets, TLC, Json
CONSTANTS RowW, WMax, NCells, Targets, Margins, Caps, XSet, FASet
VARIABLES nrows, hrow, cells, tgt, mar, cap
vars == <<nrows, hrow, cells, tgt, mar, cap>>
CellChoices == [w : 0..WMax, h : {1, 2}, f : BOOLEAN, x : XSet, fa : FASet]   \* fa = expansion factor x 4
Key(c) == (((c.w * 3 + c.h) * 2 + (IF c.f THEN 1 ELSE 0)) * 4 + c.x) * 16 + c.fa
Init == /\ nrows \in {1, 2} /\ hrow \in {1, 2} /\ cells = <<>> /\ tgt \in Targets /\ mar \in Margins /\ cap \in Caps
Add(c) == /\ Len(cells) < NCells /\ (Len(cells) >= 1 => Key(cells[Len(cells)]) <= Key(c))
          /\ cells' = Append(cells, c) /\ UNCHANGED <<nrows, hrow, tgt, mar, cap>>
Next == \E c \in CellChoices : Add(c)
Spec == Init /\ [][Next]_vars
Circ == [cells |-> [i \in 1..Len(cells) |-> [w |-> cells[i].w, h |-> cells[i].h * hrow, f |-> cells[i].f, ob |-> TRUE, p |-> "ANY",
                                              x |-> cells[i].x, y |-> 0, o |-> "N"]],
         nets |-> <<>>,
         rows |-> [r \in 1..nrows |-> [x0 |-> 0, x1 |-> RowW, y0 |-> (r - 1) * hrow, y1 |-> r * hrow, o |-> "N"]]]
Emit == Len(cells) = 0 \/ PrintT(ToJson([scen |-> "expcase", circ |-> Circ, p64 |-> tgt, m2 |-> mar, cap64 |-> cap,
                                          f4 |-> [i \in 1..Len(cells) |-> cells[i].fa]]))
=============================================================================
