------------------------------ MODULE FreeSpace ------------------------------
(***************************************************************************)
(* C15: free row space = the row minus every column range touched by a     *)
(* blocking rectangle.  Enumerates every configuration of up to MaxObs     *)
(* rectangles with corners in the coordinate sets XS x YS around one row   *)
(* (before / on / inside / after each edge, degenerate allowed), with      *)
(* every flag combination, checks that the endpoint-based definition of    *)
(* Geometry.FreeSegments coincides with the column-by-column definition,   *)
(* and emits each configuration with the expected segments for replay into *)
(* Row::freespace and Circuit::computeRows.                                *)
(***************************************************************************)
EXTENDS Integers, Sequences, FiniteSets, TLC, Json, Geometry
CONSTANTS MaxObs,    \* number of rectangles
          NKinds     \* 1: all rectangles are blocking extra obstacles; 5: every flag combination

TheRow == [x0 |-> 2, x1 |-> 7, y0 |-> 1, y1 |-> 3, o |-> "FS"]
XS == <<0, 2, 3, 5, 7, 8>>
YS == <<0, 1, 2, 3, 4>>
Kinds == <<"extra", "fixedObs", "fixedFree", "movableObs", "movableFree">>
Blocking(k) == k \in {"extra", "fixedObs"}

\* rectangles in a canonical order, index-addressed so that configurations are multisets
Rects == { [x0 |-> XS[a], x1 |-> XS[b], y0 |-> YS[c], y1 |-> YS[d]] :
              a \in 1..Len(XS), b \in 1..Len(XS), c \in 1..Len(YS), d \in 1..Len(YS) }
ValidRects == { r \in Rects : r.x0 <= r.x1 /\ r.y0 <= r.y1 }
Key(r) == ((r.x0 * 10 + r.x1) * 10 + r.y0) * 10 + r.y1

VARIABLES obs, kinds
vars == <<obs, kinds>>
Init == obs = <<>> /\ kinds = <<>>
Add(r, k) == /\ Len(obs) < MaxObs
             /\ (Len(obs) > 0 => Key(obs[Len(obs)]) <= Key(r))
             /\ obs' = Append(obs, r) /\ kinds' = Append(kinds, k)
Next == \E r \in ValidRects, k \in 1..NKinds : Add(r, Kinds[k])
Spec == Init /\ [][Next]_vars

BlockingObs == LET idx == { i \in 1..Len(obs) : Blocking(kinds[i]) } IN [i \in idx |-> obs[i]]
Segs == FreeSegments(TheRow, BlockingObs)

\* the two definitions of free space agree; segments are disjoint, inside the row, maximal
DefinitionsAgree ==
    /\ ColumnsOf(Segs) = FreeColumns(TheRow, BlockingObs)
    /\ \A s \in Segs : TheRow.x0 <= s[1] /\ s[1] < s[2] /\ s[2] <= TheRow.x1
    /\ \A s, t \in Segs : s # t => (s[2] < t[1] \/ t[2] < s[1])

RECURSIVE SortSegs(_)
SortSegs(S) == IF S = {} THEN <<>>
               ELSE LET m == CHOOSE s \in S : \A t \in S : s[1] <= t[1] IN <<m>> \o SortSegs(S \ {m})

Emit == PrintT(ToJson([k |-> "free", row |-> TheRow,
                       obs |-> [i \in 1..Len(obs) |-> [x0 |-> obs[i].x0, x1 |-> obs[i].x1, y0 |-> obs[i].y0, y1 |-> obs[i].y1, kind |-> kinds[i]]],
                       expect |-> SortSegs(Segs)]))
=============================================================================
