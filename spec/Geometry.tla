------------------------------ MODULE Geometry ------------------------------
(***************************************************************************)
(* Operators on the abstract circuit state.  A circuit is a record         *)
(*   [cells |-> Seq([w,h,f,ob,p,x,y,o]), nets |-> Seq([wt, pins |->        *)
(*    Seq([c,dx,dy])]), rows |-> Seq([x0,x1,y0,y1,o])]                     *)
(* exactly as projected by harness/project.hpp (cell indices 1-based).     *)
(* The definitions follow the *statements* of the properties, they are not *)
(* transcriptions of the implementation.                                   *)
(***************************************************************************)
EXTENDS Integers, Sequences, FiniteSets, Orient

Abs(a) == IF a < 0 THEN -a ELSE a
Min2(a, b) == IF a < b THEN a ELSE b
Max2(a, b) == IF a > b THEN a ELSE b
SetMin(S) == CHOOSE v \in S : \A u \in S : v <= u
SetMax(S) == CHOOSE v \in S : \A u \in S : v >= u

RECURSIVE SumTo(_, _)
\* SumTo(f, n) = f[1] + ... + f[n] for a function/sequence f
SumTo(f, n) == IF n = 0 THEN 0 ELSE f[n] + SumTo(f, n - 1)
SumSeq(s) == SumTo(s, Len(s))

NCells(c) == Len(c.cells)
CellIds(c) == 1..Len(c.cells)
PW(e) == PlacedW(e.o, e.w, e.h)
PH(e) == PlacedH(e.o, e.w, e.h)
X1(e) == e.x + PW(e)
Y1(e) == e.y + PH(e)
Movable(c) == { i \in CellIds(c) : ~c.cells[i].f }
FixedCells(c) == { i \in CellIds(c) : c.cells[i].f }
\* fixed cells that block placement: flagged obstruction, positive placed width and height
Obstacles(c) == { i \in CellIds(c) : c.cells[i].f /\ c.cells[i].ob /\ PW(c.cells[i]) > 0 /\ PH(c.cells[i]) > 0 }

---------------------------------------------------------------------------
(* Wirelength (C09): half perimeter of the bounding box of the pins, pin   *)
(* positions through the orientation algebra.                              *)
PinX(c, p) == LET e == c.cells[p.c] IN e.x + PinAt(e.o, e.w, e.h, p.dx, p.dy)[1]
PinY(c, p) == LET e == c.cells[p.c] IN e.y + PinAt(e.o, e.w, e.h, p.dx, p.dy)[2]
NetSpan(c, n) ==
    IF Len(n.pins) = 0 THEN 0
    ELSE LET xs == { PinX(c, n.pins[k]) : k \in 1..Len(n.pins) }
             ys == { PinY(c, n.pins[k]) : k \in 1..Len(n.pins) }
         IN (SetMax(xs) - SetMin(xs)) + (SetMax(ys) - SetMin(ys))
Hpwl(c) == SumSeq([k \in 1..Len(c.nets) |-> NetSpan(c, c.nets[k])])

\* one-dimensional views (what the incremental model maintains)
NetSpanX(c, n) == IF Len(n.pins) = 0 THEN 0
                  ELSE LET xs == { PinX(c, n.pins[k]) : k \in 1..Len(n.pins) } IN SetMax(xs) - SetMin(xs)
NetSpanY(c, n) == IF Len(n.pins) = 0 THEN 0
                  ELSE LET ys == { PinY(c, n.pins[k]) : k \in 1..Len(n.pins) } IN SetMax(ys) - SetMin(ys)
HpwlX(c) == SumSeq([k \in 1..Len(c.nets) |-> NetSpanX(c, c.nets[k])])
HpwlY(c) == SumSeq([k \in 1..Len(c.nets) |-> NetSpanY(c, c.nets[k])])

---------------------------------------------------------------------------
(* Free row space (C15): a row minus every column range touched by an      *)
(* obstacle rectangle [x0,x1,y0,y1].  Endpoint-based (any coordinates).     *)
Touches(ob, row) == /\ ob.x0 < ob.x1 /\ ob.y0 < ob.y1
                    /\ ob.y0 < row.y1 /\ row.y0 < ob.y1
                    /\ ob.x0 < row.x1 /\ row.x0 < ob.x1
FreeRange(row, obs, a, b) == \A k \in DOMAIN obs : ~(Touches(obs[k], row) /\ obs[k].x0 < b /\ a < obs[k].x1)
\* obs: a sequence (or any function) of rectangles
FreeSegments(row, obs) ==
    IF row.x0 >= row.x1 \/ row.y0 >= row.y1 THEN {}
    ELSE LET P == {row.x0, row.x1} \cup
                  { Max2(row.x0, Min2(row.x1, obs[k].x0)) : k \in DOMAIN obs } \cup
                  { Max2(row.x0, Min2(row.x1, obs[k].x1)) : k \in DOMAIN obs }
         IN { s \in P \X P :
                /\ s[1] < s[2] /\ FreeRange(row, obs, s[1], s[2])
                /\ \A a \in P : a < s[1] => ~FreeRange(row, obs, a, s[2])
                /\ \A b \in P : b > s[2] => ~FreeRange(row, obs, s[1], b) }

\* Column-based definition, for small grids only: the set of free unit columns.
FreeColumns(row, obs) ==
    { x \in row.x0..(row.x1 - 1) :
        row.y0 < row.y1 /\
        \A k \in DOMAIN obs : ~(obs[k].x0 < obs[k].x1 /\ obs[k].y0 < obs[k].y1 /\
                                obs[k].y0 < row.y1 /\ row.y0 < obs[k].y1 /\
                                obs[k].x0 <= x /\ x < obs[k].x1) }
ColumnsOf(segs) == UNION { s[1]..(s[2] - 1) : s \in segs }

CellRect(e) == [x0 |-> e.x, x1 |-> X1(e), y0 |-> e.y, y1 |-> Y1(e)]
ObstacleRects(c) == LET ids == Obstacles(c) IN [i \in ids |-> CellRect(c.cells[i])]

---------------------------------------------------------------------------
(* Legality (C01/C02)                                                      *)
RowH(c) == c.rows[1].y1 - c.rows[1].y0

\* the strip [x, x+pw) x [y, y+H) of cell e lies in one row segment clear of all obstructions
StripFree(c, e, y) ==
    \E r \in 1..Len(c.rows) :
       LET row == c.rows[r] IN
       /\ row.y0 = y /\ row.x0 <= e.x /\ X1(e) <= row.x1
       /\ \A o \in Obstacles(c) :
            LET ob == c.cells[o] IN
            ~(ob.y < row.y1 /\ row.y0 < Y1(ob) /\ ob.x < X1(e) /\ e.x < X1(ob))

CellLegal(c, i) ==
    LET e == c.cells[i] H == RowH(c) IN
    /\ PH(e) > 0 /\ PH(e) % H = 0
    /\ \A k \in 0..((PH(e) \div H) - 1) : StripFree(c, e, e.y + k * H)

Overlap(a, b) == a.x < X1(b) /\ b.x < X1(a) /\ a.y < Y1(b) /\ b.y < Y1(a)

NoOverlap(c) == \A i, j \in Movable(c) : i < j => ~Overlap(c.cells[i], c.cells[j])

Legal(c) == (\A i \in Movable(c) : CellLegal(c, i)) /\ NoOverlap(c)

IllegalCells(c) == { i \in Movable(c) : ~CellLegal(c, i) }
OverlapPairs(c) == { p \in Movable(c) \X Movable(c) : p[1] < p[2] /\ Overlap(c.cells[p[1]], c.cells[p[2]]) }

\* "success is trivial" (C01): row-high movable cells without row restriction whose total width is at most
\* the total free segment width less one maximum cell width per segment.
SegmentsOfRow(c, r) == FreeSegments(c.rows[r], ObstacleRects(c))
\* the free space of a whole circuit as every consumer must see it: segments <<x0, x1, y0, y1, orientation>> of every row, against
\* the fixed obstruction cells plus the movable cells in `also` (cells a consumer treats as obstacles)
FreeOfCircuit(c, also) ==
    LET ids == Obstacles(c) \cup { i \in also : PW(c.cells[i]) > 0 /\ PH(c.cells[i]) > 0 }
        rects == [i \in ids |-> CellRect(c.cells[i])] IN
    UNION { { <<s[1], s[2], c.rows[r].y0, c.rows[r].y1, c.rows[r].o>> : s \in FreeSegments(c.rows[r], rects) } : r \in 1..Len(c.rows) }
\* number of free segments, counted row by row
FreeCount(c) == SumSeq([r \in 1..Len(c.rows) |-> Cardinality(FreeSegments(c.rows[r], ObstacleRects(c)))])
RowSet(rows) == { <<rows[k].x0, rows[k].x1, rows[k].y0, rows[k].y1, rows[k].o>> : k \in 1..Len(rows) }
TrivialFit(c) ==
    LET M == Movable(c) H == RowH(c) IN
    /\ \A i \in M : c.cells[i].p = "ANY" /\ PH(c.cells[i]) = H /\ PW(c.cells[i]) > 0
    /\ LET maxw == IF M = {} THEN 0 ELSE SetMax({ PW(c.cells[i]) : i \in M })
           tot == SumSeq([i \in 1..NCells(c) |-> IF i \in M THEN PW(c.cells[i]) ELSE 0])
           segw == SumSeq([r \in 1..Len(c.rows) |->
                     LET S == SegmentsOfRow(c, r)
                         F == [s \in S |-> Max2(0, (s[2] - s[1]) - maxw)]
                         RECURSIVE Add(_)
                         Add(T) == IF T = {} THEN 0 ELSE LET t == CHOOSE t \in T : TRUE IN F[t] + Add(T \ {t})
                     IN Add(S)])
       IN tot <= segw

---------------------------------------------------------------------------
(* Frame conditions (C03)                                                   *)
SameStructure(c0, c1) ==
    /\ Len(c0.cells) = Len(c1.cells) /\ c0.rows = c1.rows /\ c0.nets = c1.nets
    /\ \A i \in CellIds(c0) :
         LET a == c0.cells[i] b == c1.cells[i] IN
         a.w = b.w /\ a.h = b.h /\ a.f = b.f /\ a.ob = b.ob /\ a.p = b.p
Frame(c0, c1) ==
    /\ SameStructure(c0, c1)
    /\ \A i \in FixedCells(c0) : c0.cells[i] = c1.cells[i]
FrameGlobal(c0, c1) ==
    Frame(c0, c1) /\ \A i \in CellIds(c0) : c0.cells[i].o = c1.cells[i].o
FrameDiff(c0, c1) ==
    IF Len(c0.cells) # Len(c1.cells) THEN <<"nbcells">>
    ELSE IF c0.rows # c1.rows THEN <<"rows">>
    ELSE IF c0.nets # c1.nets THEN <<"nets">>
    ELSE LET bad == { i \in CellIds(c0) :
                        LET a == c0.cells[i] b == c1.cells[i] IN
                        ~(a.w = b.w /\ a.h = b.h /\ a.f = b.f /\ a.ob = b.ob /\ a.p = b.p /\ (a.f => a = b)) }
         IN IF bad = {} THEN <<>> ELSE <<"cell", SetMin(bad)>>

---------------------------------------------------------------------------
(* Orientation / polarity (C04)                                             *)
\* orientation of the row(s) whose bottom is at y and that contain the cell's x-range start
RowOrientsAt(c, e) == { c.rows[r].o : r \in { r \in 1..Len(c.rows) :
                          c.rows[r].y0 = e.y /\ c.rows[r].x0 <= e.x /\ e.x < c.rows[r].x1 } }
CellOrientOK(c0, c1, i) ==
    LET e == c1.cells[i] IN
    IF e.p = "ANY" THEN e.o = c0.cells[i].o
    ELSE /\ e.o \in Orients
         /\ \E ro \in RowOrientsAt(c1, e) : e.o = CellOrientationInRow(e.p, ro)
OrientOK(c0, c1) == \A i \in Movable(c1) : CellOrientOK(c0, c1, i)
BadOrientCells(c0, c1) == { i \in Movable(c1) : ~CellOrientOK(c0, c1, i) }

---------------------------------------------------------------------------
(* Placement area (C06)                                                     *)
AreaBox(c) == [x0 |-> SetMin({ c.rows[r].x0 : r \in 1..Len(c.rows) }),
               x1 |-> SetMax({ c.rows[r].x1 : r \in 1..Len(c.rows) }),
               y0 |-> SetMin({ c.rows[r].y0 : r \in 1..Len(c.rows) }),
               y1 |-> SetMax({ c.rows[r].y1 : r \in 1..Len(c.rows) })]
\* centre of the cell inside the bounding box of the rows, in doubled coordinates, with `slack` doubled units
\* of tolerance for the centre -> corner rounding
CentreInArea(c, e, slack) ==
    LET b == AreaBox(c) IN
    /\ 2 * b.x0 - slack <= 2 * e.x + PW(e) /\ 2 * e.x + PW(e) <= 2 * b.x1 + slack
    /\ 2 * b.y0 - slack <= 2 * e.y + PH(e) /\ 2 * e.y + PH(e) <= 2 * b.y1 + slack
\* (written without Abs: the overflowed value -2^31 cannot be negated in TLC's 32-bit integers)
Finite(c, bound) == \A i \in CellIds(c) : (0 - bound) <= c.cells[i].x /\ c.cells[i].x <= bound /\ (0 - bound) <= c.cells[i].y /\ c.cells[i].y <= bound
\* a net list in which no net has a pin on a fixed cell: the wirelength problem is translation invariant
FloatingNetlist(c) == \A k \in 1..Len(c.nets) : \A j \in 1..Len(c.nets[k].pins) : ~c.cells[c.nets[k].pins[j].c].f
=============================================================================
