------------------------------ MODULE GlobalLoop ------------------------------
(***************************************************************************)
(* C06 / C08 design level: control flow of GlobalPlacer::run with its      *)
(* callbacks and the fork/join of the two lower-bound solves.              *)
(* Placements are uninterpreted terms recording what they were computed    *)
(* from, so "the export uses exactly the last lower bound and the last     *)
(* upper bound" and "the result does not depend on the interleaving of the *)
(* two solver threads" are checkable equalities.                           *)
(*  main thread: InitLB; (InitStep)*; loop { UB; [Stop]; [PenaltyCb];      *)
(*               k x (Fork; Join; LBcb); update } ; FinalUB; Export        *)
(*  solver threads X, Y: SolveStep+ between Fork and Join; each reads only *)
(*  its own topology and its own copy of the arguments, writes only its    *)
(*  own result slot; the random generator is advanced by the main thread   *)
(*  only, before Fork.                                                     *)
(* Racy = TRUE models a solver that reads the other thread's slot (or the  *)
(* generator): TLC then reports NoRace / ScheduleIndependent violated.     *)
(***************************************************************************)
EXTENDS Integers, Sequences, FiniteSets, TLC, PlaceAPI
CONSTANTS MaxSteps,      \* params.global.maxNbSteps
          NbInit,        \* params.global.nbInitialSteps
          K,             \* nbStepsBeforeRoughLegalization
          SolveSteps,    \* granularity of a solve
          Racy

Threads == {"X", "Y"}
VARIABLES pc, step, inner, lb, ub, rng, thr, res, args, reads, writes, cbs, exported, stopped
vars == <<pc, step, inner, lb, ub, rng, thr, res, args, reads, writes, cbs, exported, stopped>>

Init == /\ pc = "initLB" /\ step = 0 /\ inner = 0
        /\ lb = <<"star", <<>>, <<>>>> /\ ub = <<"none", <<>>, <<>>>> /\ rng = 0
        /\ thr = [t \in Threads |-> [st |-> "idle", k |-> 0]]
        /\ res = [t \in Threads |-> <<>>] /\ args = [t \in Threads |-> <<>>]
        /\ reads = [t \in Threads |-> {}] /\ writes = [t \in Threads |-> {}]
        /\ cbs = <<>> /\ exported = <<"none", <<>>, <<>>>> /\ stopped = FALSE

\* runInitialLB: star solve + callback, then nbInitialSteps plain solves with callbacks, UB := LB
InitLB == /\ pc = "initLB"
          /\ cbs' = Append(cbs, "LowerBound") /\ step' = 1
          /\ pc' = IF NbInit >= 1 THEN "initStep" ELSE "ub"
          /\ ub' = IF NbInit >= 1 THEN ub ELSE lb
          /\ UNCHANGED <<inner, lb, rng, thr, res, args, reads, writes, exported, stopped>>
InitStep == /\ pc = "initStep"
            /\ lb' = <<"solve", lb, <<>>>> /\ cbs' = Append(cbs, "LowerBound") /\ step' = step + 1
            /\ pc' = IF step + 1 > NbInit THEN "ub" ELSE "initStep"
            /\ ub' = IF step + 1 > NbInit THEN <<"solve", lb, <<>>>> ELSE ub
            /\ UNCHANGED <<inner, rng, thr, res, args, reads, writes, exported, stopped>>
\* loop head: step <= maxNbSteps ? runUB : leave
UB == /\ pc = "ub"
      /\ IF step <= MaxSteps
         THEN /\ ub' = <<"legalize", lb, ub>> /\ cbs' = Append(cbs, "UpperBound") /\ pc' = "decide"
              /\ UNCHANGED <<exported>>
         ELSE /\ pc' = "final" /\ UNCHANGED <<ub, cbs, exported>>
      /\ UNCHANGED <<step, inner, lb, rng, thr, res, args, reads, writes, stopped>>
\* gap / distance small enough: break
Stop == /\ pc = "decide" /\ pc' = "final" /\ stopped' = TRUE
        /\ UNCHANGED <<step, inner, lb, ub, rng, thr, res, args, reads, writes, cbs, exported>>
PenaltyCb == /\ pc = "decide" /\ cbs' = Append(cbs, "PenaltyUpdate") /\ pc' = "fork" /\ inner' = 0
             /\ UNCHANGED <<step, lb, ub, rng, thr, res, args, reads, writes, exported, stopped>>
NoPenalty == /\ pc = "decide" /\ pc' = "fork" /\ inner' = 0
             /\ UNCHANGED <<step, lb, ub, rng, thr, res, args, reads, writes, cbs, exported, stopped>>
\* runLB: penalty noise (rng), arguments copied by value, both solves launched
Fork == /\ pc = "fork"
        /\ rng' = rng + 1
        /\ args' = [t \in Threads |-> <<"args", <<lb, ub>>, <<rng + 1>>>>]
        /\ res' = [t \in Threads |-> <<>>]
        /\ thr' = [t \in Threads |-> [st |-> "running", k |-> 0]]
        /\ reads' = [t \in Threads |-> {}] /\ writes' = [t \in Threads |-> {}]
        /\ pc' = "join"
        /\ UNCHANGED <<step, inner, lb, ub, cbs, exported, stopped>>
Own(t) == IF t = "X" THEN {"xtopo", "argsX"} ELSE {"ytopo", "argsY"}
Slot(t) == IF t = "X" THEN "resX" ELSE "resY"
SolveStep(t) ==
  /\ thr[t].st = "running"
  /\ IF thr[t].k < SolveSteps
     THEN /\ thr' = [thr EXCEPT ![t].k = @ + 1]
          /\ reads' = [reads EXCEPT ![t] = @ \cup Own(t) \cup (IF Racy /\ t = "Y" THEN {"resX"} ELSE {})]
          /\ UNCHANGED <<res, writes>>
     ELSE /\ thr' = [thr EXCEPT ![t].st = "done"]
          /\ res' = [res EXCEPT ![t] = <<"solved" \o t, args[t], IF Racy /\ t = "Y" THEN res["X"] ELSE <<>> >>]
          /\ writes' = [writes EXCEPT ![t] = @ \cup {Slot(t)}]
          /\ UNCHANGED reads
  /\ UNCHANGED <<pc, step, inner, lb, ub, rng, args, cbs, exported, stopped>>
Join == /\ pc = "join" /\ \A t \in Threads : thr[t].st = "done"
        /\ lb' = <<"join", res["X"], res["Y"]>> /\ cbs' = Append(cbs, "LowerBound")
        /\ thr' = [t \in Threads |-> [st |-> "idle", k |-> 0]]
        /\ inner' = inner + 1
        /\ IF inner + 1 >= K THEN pc' = "ub" /\ step' = step + 1 ELSE pc' = "fork" /\ step' = step
        /\ UNCHANGED <<ub, rng, res, args, reads, writes, exported, stopped>>
FinalUB == /\ pc = "final"
           /\ ub' = <<"legalize", lb, ub>> /\ cbs' = Append(cbs, "UpperBound") /\ pc' = "export"
           /\ UNCHANGED <<step, inner, lb, rng, thr, res, args, reads, writes, exported, stopped>>
Export == /\ pc = "export" /\ exported' = <<"blend", lb, ub>> /\ pc' = "done"
          /\ UNCHANGED <<step, inner, lb, ub, rng, thr, res, args, reads, writes, cbs, stopped>>
Done == pc = "done" /\ UNCHANGED vars

Next == InitLB \/ InitStep \/ UB \/ Stop \/ PenaltyCb \/ NoPenalty \/ Fork \/ (\E t \in Threads : SolveStep(t)) \/ Join \/ FinalUB \/ Export \/ Done
Spec == Init /\ [][Next]_vars /\ WF_vars(Next)

---------------------------------------------------------------------------
\* the callback sequence of a completed run obeys the grammar the trace specification demands of the code
GrammarAtEnd == pc = "done" => GlobalGrammarOK(cbs, [steps |-> MaxSteps, init |-> NbInit])
\* the returned placement is the blend of the LAST lower bound and the LAST upper bound
ExportsLast == pc = "done" => exported = <<"blend", lb, ub>> /\ ub[1] = "legalize" /\ ub[2] = lb
\* no location written by one solver is accessed by the other between Fork and Join
NoRace == \A t, u \in Threads : t # u => (writes[t] \cap (reads[u] \cup writes[u])) = {}
\* a solver's result is a function of its own arguments only (schedule independence)
ScheduleIndependent == \A t \in Threads : Len(res[t]) > 0 => res[t][2] = args[t] /\ Len(res[t][3]) = 0
RngMainThreadOnly == rng <= step * K + K
Terminates == <>(pc = "done")
StepBound == step <= MaxSteps + 1
=============================================================================
