------------------------------ MODULE IncrHpwl ------------------------------
(***************************************************************************)
(* C09: the incrementally maintained one-dimensional wirelength.           *)
(* Implementation-shaped part: per-net (min,max) and a running value,      *)
(* updated as IncrNetModel::updateCellPos does (recompute every net the    *)
(* moved cell has a pin on); cells outside the modelled subset act as      *)
(* fixed pins.  Contract: after any history of position updates the value  *)
(* equals the from-scratch wirelength (Geometry.HpwlX / HpwlY) of the      *)
(* circuit with the updated positions.                                     *)
(* Each state is a history (hist is part of the state); leaves are emitted *)
(* as JSON and replayed into real IncrNetModel objects.                    *)
(***************************************************************************)
EXTENDS Integers, Sequences, FiniteSets, TLC, Json, Geometry
CONSTANTS Depth,      \* length of update histories
          NPos,       \* positions 0..NPos-1
          MaxNets,    \* nets per netlist
          NInit       \* number of initial position vectors used

P(c, dx, dy) == [c |-> c, dx |-> dx, dy |-> dy]
NetShapes == <<
   <<P(1,0,0), P(2,1,1), P(3,0,2)>>,
   <<P(1,0,1), P(1,2,0)>>,
   <<P(2,0,0)>>,
   <<>>,
   <<P(3,1,0), P(4,0,1), P(2,-1,3)>>,
   <<P(3,0,0), P(4,0,0)>>,
   <<P(1,1,1), P(3,0,0), P(4,2,-1), P(2,0,0)>>,
   <<P(2,1,0), P(1,0,0), P(2,3,2), P(3,1,1), P(2,-1,1)>> >>
Subsets == << <<1,2,3,4>>, <<2,1>>, <<2,3>>, <<1>>, <<4,3,1>> >>
OrientVecs == << <<"N","N","N","N">>, <<"W","FS","E","FN">>, <<"S","FE","N","FW">> >>
InitPos == << <<0,3,1,4>>, <<2,2,0,1>> >>
Sizes == << <<2,1>>, <<1,2>>, <<2,2>>, <<3,1>> >>

VARIABLES nl,     \* set of net-shape indices (the netlist, in index order)
          sub,    \* index into Subsets
          ov,     \* index into OrientVecs
          ip,     \* index into InitPos
          axis,   \* "x" or "y"
          pos,    \* current positions of all four cells along the axis
          hist,   \* sequence of <<cell, newpos>>
          mm,     \* impl: per net (index in netlist) <<min,max>> or <<>> for dropped nets
          val,    \* impl: running value
          vals    \* sequence of impl values after each step (for emission)
vars == <<nl, sub, ov, ip, axis, pos, hist, mm, val, vals>>

RECURSIVE SetToSeq(_)
SetToSeq(S) == IF S = {} THEN <<>> ELSE LET m == SetMin(S) IN <<m>> \o SetToSeq(S \ {m})
NetSeq(n) == LET idx == SetToSeq(n) IN [k \in 1..Len(idx) |-> [wt |-> 0, pins |-> NetShapes[idx[k]]]]

\* the circuit with cell positions `p` along `ax` (the other coordinate is fixed to a constant pattern)
Circ(n, o, ax, p) ==
   [cells |-> [i \in 1..4 |-> [w |-> Sizes[i][1], h |-> Sizes[i][2], f |-> FALSE, ob |-> TRUE, p |-> "ANY",
                               x |-> IF ax = "x" THEN p[i] ELSE i, y |-> IF ax = "y" THEN p[i] ELSE 5 - i,
                               o |-> OrientVecs[o][i]]],
    nets |-> NetSeq(n), rows |-> <<>>]
Scratch(n, o, ax, p) == IF ax = "x" THEN HpwlX(Circ(n, o, ax, p)) ELSE HpwlY(Circ(n, o, ax, p))

InSub(c) == \E k \in 1..Len(Subsets[sub]) : Subsets[sub][k] = c

\* ---- implementation-shaped bookkeeping
PinPos(c, pin, ax, p) == IF ax = "x" THEN PinX(Circ(nl, ov, ax, p), pin) ELSE PinY(Circ(nl, ov, ax, p), pin)
NetMM(net, o, ax, p, n) ==
   LET c == Circ(n, o, ax, p)
       ps == { (IF ax = "x" THEN PinX(c, net.pins[k]) ELSE PinY(c, net.pins[k])) : k \in 1..Len(net.pins) }
   IN IF ps = {} THEN <<>> ELSE <<SetMin(ps), SetMax(ps)>>
AllMM(n, o, ax, p) == LET ns == NetSeq(n) IN [k \in 1..Len(ns) |-> NetMM(ns[k], o, ax, p, n)]
SpanOf(m) == IF m = <<>> THEN 0 ELSE m[2] - m[1]
HasCell(net, c) == \E k \in 1..Len(net.pins) : net.pins[k].c = c

Init == /\ nl \in { S \in SUBSET (1..Len(NetShapes)) : Cardinality(S) <= MaxNets }
        /\ sub \in 1..Len(Subsets) /\ ov \in 1..Len(OrientVecs) /\ ip \in 1..NInit
        /\ axis \in {"x", "y"}
        /\ pos = InitPos[ip] /\ hist = <<>>
        /\ mm = AllMM(nl, ov, axis, pos)
        /\ val = SumSeq([k \in 1..Len(mm) |-> SpanOf(mm[k])])
        /\ vals = <<val>>

Update(c, p) ==
   /\ Len(hist) < Depth /\ InSub(c)
   /\ LET np == [pos EXCEPT ![c] = p]
          ns == NetSeq(nl)
          \* recompute exactly the nets on which the moved cell has a pin, as the implementation does
          nmm == [k \in 1..Len(ns) |-> IF HasCell(ns[k], c) THEN NetMM(ns[k], ov, axis, np, nl) ELSE mm[k]]
          nval == val + SumSeq([k \in 1..Len(ns) |-> SpanOf(nmm[k]) - SpanOf(mm[k])])
      IN /\ pos' = np /\ mm' = nmm /\ val' = nval /\ vals' = Append(vals, nval)
   /\ hist' = Append(hist, <<c, p>>)
   /\ UNCHANGED <<nl, sub, ov, ip, axis>>

Next == \E c \in 1..4, p \in 0..(NPos - 1) : Update(c, p)
Spec == Init /\ [][Next]_vars

\* ---- contract
ValueExact == val = Scratch(nl, ov, axis, pos)
MinMaxExact == mm = AllMM(nl, ov, axis, pos)

Emit == Len(hist) = Depth =>
          PrintT(ToJson([k |-> "incr", circ |-> Circ(nl, ov, axis, InitPos[ip]), sub |-> Subsets[sub], axis |-> axis,
                         hist |-> hist, expect |-> vals,
                         hp0 |-> Hpwl(Circ(nl, ov, axis, InitPos[ip])), hp1 |-> Hpwl(Circ(nl, ov, axis, pos))]))
=============================================================================
