---------------------------- MODULE LegalizeCases ----------------------------
(***************************************************************************)
(* C01 / C04 / C11 / C03, spec -> code -> spec: the exhaustive small scope  *)
(* of legalization inputs.  Two row levels of height 1 and width RowW      *)
(* (orientation patterns; the upper level optionally split in two          *)
(* segments with a gap), up to two movable cells (widths 1..WMax, one or   *)
(* two rows high, polarities, targets inside and outside the rows), an     *)
(* optional fixed cell (obstruction or not).  Every circuit is emitted     *)
(* with the values the contract derives for it (TrivialFit, already legal) *)
(* and legalized twice by the real Circuit::legalize; TraceCircuit judges  *)
(* the recorded events.  The spec's own invariants check that the contract *)
(* operators are consistent on this scope (e.g. a circuit that is          *)
(* TrivialFit has enough free width).                                      *)
(***************************************************************************)
EXTENDS Integers, Sequences, FiniteSets, TLC, Json, LegalizeImpl
CONSTANTS RowW, WMax, Pols, Patterns, XS, YS, NFixOpts

RowPatterns == << <<"N", "FS">>, <<"N", "N">>, <<"S", "FN">>, <<"FS", "N">> >>
\* upper level: whole or split [0,a) + [b,RowW)
Splits == << <<>>, <<2, 3>>, <<3, 3>> >>
FixedOptions == << <<>>, <<1, 0, 2, 1, TRUE>>, <<2, 0, 1, 2, TRUE>>, <<0, 1, 3, 1, FALSE>>, <<4, -1, 1, 3, TRUE>> >>   \* x, y, w, h, obstruction

VARIABLES pat, split, fix, cells
vars == <<pat, split, fix, cells>>
CellChoices == [w : 1..WMax, h : {1, 2}, p : Pols, x : XS, y : YS]

Rows(pt, sp) ==
    <<[x0 |-> 0, x1 |-> RowW, y0 |-> 0, y1 |-> 1, o |-> RowPatterns[pt][1]]>> \o
    (IF Splits[sp] = <<>> THEN <<[x0 |-> 0, x1 |-> RowW, y0 |-> 1, y1 |-> 2, o |-> RowPatterns[pt][2]]>>
     ELSE <<[x0 |-> 0, x1 |-> Splits[sp][1], y0 |-> 1, y1 |-> 2, o |-> RowPatterns[pt][2]],
            [x0 |-> Splits[sp][2], x1 |-> RowW, y0 |-> 1, y1 |-> 2, o |-> RowPatterns[pt][2]]>>)
Circ == [cells |-> [i \in 1..Len(cells) |-> [w |-> cells[i].w, h |-> cells[i].h, f |-> FALSE, ob |-> TRUE, p |-> cells[i].p,
                                              x |-> cells[i].x, y |-> cells[i].y, o |-> "N"]] \o
                   (IF FixedOptions[fix] = <<>> THEN <<>>
                    ELSE <<[w |-> FixedOptions[fix][3], h |-> FixedOptions[fix][4], f |-> TRUE, ob |-> FixedOptions[fix][5], p |-> "ANY",
                            x |-> FixedOptions[fix][1], y |-> FixedOptions[fix][2], o |-> "N"]>>),
         nets |-> <<>>, rows |-> Rows(pat, split)]

Key(c) == (((c.w * 3 + c.h) * 8 + (CHOOSE k \in 1..5 : <<"ANY", "SAME", "OPPOSITE", "NW", "SE">>[k] = c.p)) * 16 + c.x + 4) * 8 + c.y + 2
Init == /\ pat \in 1..Patterns /\ split \in 1..Len(Splits) /\ fix \in 1..NFixOpts /\ cells = <<>>
Add(c) == /\ Len(cells) < 2 /\ (Len(cells) = 1 => Key(cells[1]) <= Key(c))
          /\ cells' = Append(cells, c) /\ UNCHANGED <<pat, split, fix>>
Next == \E c \in CellChoices : Add(c)
Spec == Init /\ [][Next]_vars

\* consistency of the contract operators on this scope
ContractSane ==
    LET c == Circ IN
    /\ (Len(cells) >= 1 /\ TrivialFit(c)) =>
          SumSeq([i \in 1..Len(cells) |-> cells[i].w]) <= SumSeq([r \in 1..Len(c.rows) |-> c.rows[r].x1 - c.rows[r].x0])
    /\ Legal(c) => NoOverlap(c)
\* the implementation-shaped design (LegalizeImpl.Result) satisfies the contract on every circuit of the scope
ImplRes == Result(Circ)
AllRowHighC(c) == \A i \in Movable(c) : PH(c.cells[i]) = RowH(c)
PolRowsAllowed(c) == \A i \in Movable(c) : c.cells[i].p = "ANY" \/
                        \E ro \in RowOrientsAt(c, c.cells[i]) : CellOrientationInRow(c.cells[i].p, ro) # "INVALID"
DesignLegal == (Len(cells) >= 1 /\ ImplRes.ok) => Legal(ImplRes.circ) /\ OrientOK(Circ, ImplRes.circ) /\ Frame(Circ, ImplRes.circ)
DesignTrivial == (Len(cells) >= 1 /\ TrivialFit(Circ)) => ImplRes.ok
DesignStable == (Len(cells) >= 1 /\ Legal(Circ) /\ AllRowHighC(Circ) /\ PolRowsAllowed(Circ)) =>
                   ImplRes.ok /\ \A i \in Movable(Circ) : ImplRes.circ.cells[i].x = Circ.cells[i].x /\ ImplRes.circ.cells[i].y = Circ.cells[i].y
ImplPos == [i \in 1..Len(ImplRes.circ.cells) |-> <<ImplRes.circ.cells[i].x, ImplRes.circ.cells[i].y, ImplRes.circ.cells[i].o>>]
Emit == Len(cells) = 0 \/ PrintT(ToJson([scen |-> "legcase", circ |-> Circ, trivial |-> TrivialFit(Circ), legal |-> Legal(Circ),
                                                  impl |-> [ok |-> ImplRes.ok, pos |-> ImplPos]]))
=============================================================================
