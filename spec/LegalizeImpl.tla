---------------------------- MODULE LegalizeImpl ----------------------------
(***************************************************************************)
(* Implementation-shaped specification of Legalizer::run (C01, C04, C11):  *)
(* a transcription, as pure operators over circuit records, of             *)
(*   - the cell ordering key (x + orderingWidth*w + orderingY*y +          *)
(*     orderingHeight*h, stable), in tenths for the default parameters,    *)
(*   - TetrisLegalizer for cells higher than one row (closest row first,   *)
(*     first-fit per row level through rowFreePos, intersection of the     *)
(*     intervals of the row levels a cell spans),                          *)
(*   - remainingRows (free rows minus the macros just placed),             *)
(*   - AbacusLegalizer for row-high cells: per row a single-row legalizer  *)
(*     (cascading descent, as in RowLegalizer.tla), row choice by          *)
(*     width-weighted y distance + x cost, first strict minimum in the     *)
(*     order "closest row, upwards, then downwards",                       *)
(*   - checkAllPlaced and the export of positions and orientations.        *)
(* LegalizeCases.tla checks on every circuit of its scope that this        *)
(* design satisfies the contract (returns => Legal and orientations        *)
(* honoured; TrivialFit => returns; legal single-row input => unchanged),  *)
(* and the trace specification compares what the real code returned with   *)
(* Result(c) (implementation conformance, informational).                  *)
(***************************************************************************)
EXTENDS Integers, Sequences, FiniteSets, TLC, Geometry

LMin(a, b) == IF a < b THEN a ELSE b
LMax(a, b) == IF a > b THEN a ELSE b

---------------------------------------------------------------------------
(* rows: free segments sorted by (y0, x0), as LegalizerBase sorts them *)
RECURSIVE SortRows(_)
SortRows(S) == IF S = {} THEN <<>>
               ELSE LET m == CHOOSE r \in S : \A q \in S : r.y0 < q.y0 \/ (r.y0 = q.y0 /\ r.x0 <= q.x0)
                    IN <<m>> \o SortRows(S \ {m})
FreeRowSet(c, extra) ==
    UNION { { [x0 |-> s[1], x1 |-> s[2], y0 |-> c.rows[r].y0, y1 |-> c.rows[r].y1, o |-> c.rows[r].o] :
                s \in FreeSegments(c.rows[r], extra) } : r \in 1..Len(c.rows) }
ObstacleSeq(c) == LET ids == Obstacles(c) IN [i \in ids |-> CellRect(c.cells[i])]

\* closestRow: first row whose bottom is >= y, or its predecessor when that one is strictly nearer; last row beyond the top
ClosestRow(rows, y) ==
    LET n == Len(rows)
        geq == { r \in 1..n : rows[r].y0 >= y } IN
    IF geq = {} THEN n
    ELSE LET it == SetMin(geq) IN
         IF it = 1 THEN 1
         ELSE IF rows[it].y0 - y > y - rows[it - 1].y0 THEN it - 1 ELSE it

\* order in which the rows are tried: from the closest row upwards, then downwards
TryOrder(rows, y) == LET n == Len(rows) i == ClosestRow(rows, y) IN
                     [k \in 1..n |-> IF k <= n - i + 1 THEN i + k - 1 ELSE i - (k - (n - i + 1))]

OrientFor(cell, row) == LET o == CellOrientationInRow(cell.p, row.o) IN IF o = "UNKNOWN" THEN cell.o ELSE o

\* cell order: stable sort by the key (in tenths: orderingWidth 0.2, orderingY 0, orderingHeight -1)
Key10(e) == 10 * e.x + 2 * PW(e) - 10 * PH(e)
RECURSIVE SortIds(_, _)
SortIds(c, S) == IF S = {} THEN <<>>
                 ELSE LET m == CHOOSE i \in S : \A j \in S : Key10(c.cells[i]) < Key10(c.cells[j]) \/ (Key10(c.cells[i]) = Key10(c.cells[j]) /\ i <= j)
                      IN <<m>> \o SortIds(c, S \ {m})
Order(c) == SortIds(c, Movable(c))

---------------------------------------------------------------------------
(* Tetris: cells higher than one row *)
\* intervals [b, e] of admissible x for a w x h cell with its bottom at y, given the first free x of every row
RECURSIVE Intervals(_, _, _, _, _, _)
Intervals(rows, free, w, h, y, H) ==
    LET i == ClosestRow(rows, y)
        RECURSIVE Level(_)
        Level(r) == IF r > Len(rows) \/ rows[r].y0 # y THEN <<>>
                    ELSE (IF rows[r].x1 - w >= free[r] THEN << <<free[r], rows[r].x1 - w>> >> ELSE <<>>) \o Level(r + 1)
        here == IF Len(rows) = 0 THEN <<>> ELSE Level(i)
    IN IF h <= H \/ here = <<>> THEN here
       ELSE LET other == Intervals(rows, free, w, h - H, y + H, H)
                RECURSIVE Cross(_, _)
                Cross(a, b) == IF a > Len(here) THEN <<>>
                               ELSE IF b > Len(other) THEN Cross(a + 1, 1)
                               ELSE (IF here[a][1] <= other[b][2] /\ other[b][1] <= here[a][2]
                                     THEN << <<LMax(here[a][1], other[b][1]), LMin(here[a][2], other[b][2])>> >> ELSE <<>>) \o Cross(a, b + 1)
            IN Cross(1, 1)
Clamp(x, b, e) == IF x < b THEN b ELSE IF x > e THEN e ELSE x
\* closest admissible x in the first best interval
RECURSIVE BestX(_, _, _, _, _)
BestX(ivs, k, x, found, dest) ==
    IF k > Len(ivs) THEN <<found, dest>>
    ELSE LET pos == Clamp(x, ivs[k][1], ivs[k][2]) IN
         IF ~found \/ Abs(pos - x) < Abs(dest - x) THEN BestX(ivs, k + 1, x, TRUE, pos) ELSE BestX(ivs, k + 1, x, found, dest)
\* reserve the footprint: first free x of the rows the cell covers
RECURSIVE Reserve(_, _, _, _, _, _, _)
Reserve(rows, free, x, y, w, h, H) ==
    IF h <= 0 \/ w <= 0 \/ Len(rows) = 0 THEN free
    ELSE LET i == ClosestRow(rows, y)
             RECURSIVE Upd(_, _)
             Upd(f, r) == IF r > Len(rows) \/ rows[r].y0 # y THEN f
                          ELSE Upd(IF x < rows[r].x1 /\ x + w > rows[r].x0 THEN [f EXCEPT ![r] = x + w] ELSE f, r + 1)
             f1 == Upd(free, i)
         IN IF h <= H THEN f1 ELSE Reserve(rows, f1, x, y + H, w, h - H, H)

\* place one macro: first strict minimum of |dx| + |dy| over the rows in trying order
TetrisPlace(rows, free, e, H) ==
    LET w == PW(e) h == PH(e)
        ord == TryOrder(rows, e.y)
        RECURSIVE Scan(_, _, _, _, _)
        Scan(k, found, bd, bx, by) ==
            IF k > Len(ord) THEN [found |-> found, x |-> bx, y |-> by]
            ELSE LET y == rows[ord[k]].y0
                     orient == OrientFor(e, rows[ClosestRow(rows, y)])
                     r == IF orient = "INVALID" THEN <<FALSE, 0>> ELSE BestX(Intervals(rows, free, w, h, y, H), 1, e.x, FALSE, 0)
                     d == Abs(e.x - r[2]) + Abs(e.y - y)
                 IN IF r[1] /\ (~found \/ d < bd) THEN Scan(k + 1, TRUE, d, r[2], y) ELSE Scan(k + 1, found, bd, bx, by)
    IN IF Len(rows) = 0 THEN [found |-> FALSE, x |-> 0, y |-> 0] ELSE Scan(1, FALSE, 0, 0, 0)

\* all macros in order; placed: id -> [x, y, o]
RECURSIVE TetrisAll(_, _, _, _, _, _)
TetrisAll(c, rows, free, ord, k, placed) ==
    IF k > Len(ord) THEN placed
    ELSE LET i == ord[k] e == c.cells[i] H == RowH(c) IN
         IF PH(e) <= H THEN TetrisAll(c, rows, free, ord, k + 1, placed)
         ELSE LET r == TetrisPlace(rows, free, e, H) IN
              IF ~r.found THEN TetrisAll(c, rows, free, ord, k + 1, placed)
              ELSE TetrisAll(c, rows, Reserve(rows, free, r.x, r.y, PW(e), PH(e), H), ord, k + 1,
                             placed @@ (i :> [x |-> r.x, y |-> r.y, o |-> OrientFor(e, rows[ClosestRow(rows, r.y)])]))

---------------------------------------------------------------------------
(* single-row legalizer (as RowLegalizer.tla, on an explicit state record rl = [b, e, cum, cpos, bounds]) *)
Gt(a, b) == a[1] > b[1] \/ (a[1] = b[1] /\ a[2] > b[2])
RECURSIVE Ins(_, _)
Ins(bs, b) == IF bs = <<>> THEN <<b>>
              ELSE IF Gt(b, Head(bs)) \/ b = Head(bs) THEN <<b>> \o bs
              ELSE <<Head(bs)>> \o Ins(Tail(bs), b)
RLNew(b, e) == [b |-> b, e |-> e, cum |-> <<0>>, cpos |-> <<>>, bounds |-> <<>>]
RLUsed(rl) == rl.cum[Len(rl.cum)]
RLRemaining(rl) == rl.e - rl.b - RLUsed(rl)
RECURSIVE Descend(_, _, _, _, _, _, _)
Descend(rl, bs, slope, cur, cost, w, tAbs) ==
  IF bs # <<>> /\ ((slope < 0 /\ Head(bs)[1] > tAbs) \/ Head(bs)[1] > rl.e - RLUsed(rl) - w)
  THEN Descend(rl, Tail(bs), slope + Head(bs)[2], Head(bs)[1], cost + (cur - Head(bs)[1]) * (slope + w), w, tAbs)
  ELSE [bs |-> bs, slope |-> slope, cur |-> cur, cost |-> cost]
RLDisp(rl, w, t) ==
  LET tAbs == t - RLUsed(rl)
      d == Descend(rl, rl.bounds, 0 - w, rl.e, 0, w, tAbs)
      fin == LMin(rl.e - RLUsed(rl) - w, LMax(rl.b, IF d.slope >= 0 THEN d.cur ELSE tAbs))
      cost == d.cost + (d.cur - fin) * (d.slope + w) + w * Abs(fin - tAbs)
      b1 == IF d.slope > 0 THEN Ins(d.bs, <<LMin(d.cur, fin), d.slope>>) ELSE d.bs
      b2 == IF tAbs > rl.b THEN Ins(b1, <<LMin(tAbs, fin), 2 * w + LMin(d.slope, 0)>>) ELSE b1
  IN [cost |-> cost, fin |-> fin, bs |-> b2]
RLPush(rl, w, t) == LET d == RLDisp(rl, w, t) IN
                    [rl EXCEPT !.cum = Append(@, RLUsed(rl) + w), !.cpos = Append(@, d.fin), !.bounds = d.bs]
RECURSIVE RunMin(_, _)
RunMin(s, i) == IF i = Len(s) THEN s[i] ELSE LMin(s[i], RunMin(s, i + 1))
RLPlacement(rl) == [i \in 1..Len(rl.cpos) |-> RunMin(rl.cpos, i) + rl.cum[i]]

---------------------------------------------------------------------------
(* Abacus: row-high cells *)
\* st = [rl : row -> legalizer state, cellsOf : row -> sequence of cell ids]
AbacusChoose(rows, st, e, H) ==
    LET w == PW(e)
        ord == TryOrder(rows, e.y)
        RECURSIVE Scan(_, _, _)
        Scan(k, best, bd) ==
            IF k > Len(ord) THEN best
            ELSE LET r == ord[k]
                     ok == rows[r].y1 - rows[r].y0 = PH(e) /\ RLRemaining(st.rl[r]) >= w /\ OrientFor(e, rows[r]) # "INVALID"
                     d == RLDisp(st.rl[r], w, e.x).cost + w * Abs(rows[r].y0 - e.y)
                 IN IF ok /\ (best = 0 \/ d < bd) THEN Scan(k + 1, r, d) ELSE Scan(k + 1, best, bd)
    IN IF Len(rows) = 0 THEN 0 ELSE Scan(1, 0, 0)
RECURSIVE AbacusAll(_, _, _, _, _, _)
AbacusAll(c, rows, st, ord, k, done) ==
    IF k > Len(ord) THEN st
    ELSE LET i == ord[k] e == c.cells[i] H == RowH(c) IN
         IF i \in done \/ PH(e) # H THEN AbacusAll(c, rows, st, ord, k + 1, done)
         ELSE LET r == AbacusChoose(rows, st, e, H) IN
              IF r = 0 THEN AbacusAll(c, rows, st, ord, k + 1, done)
              ELSE AbacusAll(c, rows, [rl |-> [st.rl EXCEPT ![r] = RLPush(@, PW(e), e.x)],
                                       cellsOf |-> [st.cellsOf EXCEPT ![r] = Append(@, i)]], ord, k + 1, done)

---------------------------------------------------------------------------
(* the whole legalization of circuit c *)
Result(c) ==
    LET H == RowH(c)
        ord == Order(c)
        rows1 == SortRows(FreeRowSet(c, ObstacleSeq(c)))
        macros == TetrisAll(c, rows1, [r \in 1..Len(rows1) |-> rows1[r].x0], ord, 1, <<>>)
        macroIds == DOMAIN macros
        \* remainingRows: the free rows minus the macros just placed
        macroRects == [i \in macroIds |-> [x0 |-> macros[i].x, x1 |-> macros[i].x + PW(c.cells[i]), y0 |-> macros[i].y, y1 |-> macros[i].y + PH(c.cells[i])]]
        rows2 == SortRows(UNION { { [x0 |-> s[1], x1 |-> s[2], y0 |-> rows1[r].y0, y1 |-> rows1[r].y1, o |-> rows1[r].o] :
                                      s \in FreeSegments(rows1[r], macroRects) } : r \in 1..Len(rows1) })
        st0 == [rl |-> [r \in 1..Len(rows2) |-> RLNew(rows2[r].x0, rows2[r].x1)], cellsOf |-> [r \in 1..Len(rows2) |-> <<>>]]
        st == AbacusAll(c, rows2, st0, ord, 1, macroIds)
        small == UNION { { [id |-> st.cellsOf[r][k], x |-> RLPlacement(st.rl[r])[k], y |-> rows2[r].y0,
                            o |-> OrientFor(c.cells[st.cellsOf[r][k]], rows2[r])] : k \in 1..Len(st.cellsOf[r]) } : r \in 1..Len(rows2) }
        placedIds == macroIds \cup { q.id : q \in small }
        ok == Movable(c) \subseteq placedIds
        pos(i) == IF i \in macroIds THEN macros[i] ELSE LET q == CHOOSE q \in small : q.id = i IN [x |-> q.x, y |-> q.y, o |-> q.o]
    IN [ok |-> ok,
        circ |-> IF ~ok THEN c
                 ELSE [c EXCEPT !.cells = [i \in 1..Len(c.cells) |->
                          IF c.cells[i].f THEN c.cells[i] ELSE [c.cells[i] EXCEPT !.x = pos(i).x, !.y = pos(i).y, !.o = pos(i).o]]]]
=============================================================================
