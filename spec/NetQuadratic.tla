---------------------------- MODULE NetQuadratic ----------------------------
(***************************************************************************)
(* C17 contract of the continuous wirelength model for the initial star    *)
(* model (and nets with two pins): the solver returns the minimiser of     *)
(*   Q_W(x) = sum over nets n of  W_n * (p1 - p2)^2            (2 pins)    *)
(*                              (W_n / deg) * sum_pins (p - s_n)^2  (>= 3) *)
(* where p = x[cell] + offset (or the fixed position), s_n the star        *)
(* variable.  Eliminating s_n (its optimum is the mean pin position), the  *)
(* gradient with respect to each cell must vanish.  Evaluated in fixed     *)
(* point: positions x 128, offsets x 4, weights x 4.                      *)
(***************************************************************************)
EXTENDS Integers, Sequences, FiniteSets
RECURSIVE QSum(_, _)
QSum(f, n) == IF n = 0 THEN 0 ELSE f[n] + QSum(f, n - 1)
QAbs(v) == IF v < 0 THEN -v ELSE v
\* pin position x 1024
PinPos(x, pin) == IF pin.c = 0 THEN pin.o4 * 32 ELSE x[pin.c] + pin.o4 * 32
\* derivative of the net's term with respect to cell i, in units of (1/4 weight) x (1/1024 position), times deg (to stay integral)
NetGrad(x, net, i) ==
    LET d == Len(net.pins)
        pos == [k \in 1..d |-> PinPos(x, net.pins[k])]
        tot == QSum(pos, d)
    IN IF d = 2
       THEN \* W (p1 - p2)^2 : derivative 2 W (p_own - p_other), scaled by d = 2 for uniformity: 2 * 2W(...)
            QSum([k \in 1..2 |-> IF net.pins[k].c = i THEN 2 * 2 * net.w4 * (pos[k] - pos[3 - k]) ELSE 0], 2)
       ELSE \* (W/d) sum (p_k - mean)^2 : derivative 2 (W/d) (p_k - mean) per own pin; times d: 2 W (p_k - tot/d) -> times d again to clear 1/d
            QSum([k \in 1..d |-> IF net.pins[k].c = i THEN 2 * net.w4 * (d * pos[k] - tot) ELSE 0], d)
\* common denominators: 2-pin nets carry factor 2 (= d), larger nets factor d (gradient x d^2 / d) -- compare each net on its own scale:
\* the test is |sum_n NetGrad_n / scale_n| <= tol, done with rationals cleared by L = 144 = lcm(2, 9, 16) (net degrees 2..4)
Scale(net) == IF Len(net.pins) = 2 THEN 2 ELSE Len(net.pins) * Len(net.pins)
GradTimes144(x, nets, i) == QSum([k \in 1..Len(nets) |-> (NetGrad(x, nets[k], i) * 144) \div Scale(nets[k])], Len(nets))
IncidentW4(nets, i) == QSum([k \in 1..Len(nets) |-> IF \E j \in 1..Len(nets[k].pins) : nets[k].pins[j].c = i THEN nets[k].w4 ELSE 0], Len(nets))
\* stationarity within a tolerance proportional to the incident weight: fixed-point rounding of x (1/1024) plus solver tolerance
\* The net list a NetModel holds for an instance, by construction path.  via = 0: addNet(cells, offsets, weight), fixed pins
\* given as cell 0 are kept as they are.  via = 1, 2: addNet(cells, offsets, minPin, maxPin, weight) / xTopology of a Circuit:
\* the movable pins in order, then the lowest and (if different) the highest fixed pin; a net without movable pin, or with
\* a single pin in all, is dropped.  Weights are kept (w4 -> w1024 = 256 w4 / div).
QMin(S) == CHOOSE v \in S : \A u \in S : v <= u
QMax(S) == CHOOSE v \in S : \A u \in S : v >= u
MovablePins(net) == SelectSeq(net.pins, LAMBDA p : p.c # 0)
FixedOffs(net) == { net.pins[k].o4 : k \in { j \in 1..Len(net.pins) : net.pins[j].c = 0 } }
EffectivePins(net, via) ==
    IF via = 0 THEN net.pins
    ELSE IF MovablePins(net) = <<>> THEN <<>>
    ELSE IF FixedOffs(net) = {} THEN MovablePins(net)
    ELSE MovablePins(net) \o <<[c |-> 0, o4 |-> QMin(FixedOffs(net))]>> \o
         (IF QMax(FixedOffs(net)) # QMin(FixedOffs(net)) THEN <<[c |-> 0, o4 |-> QMax(FixedOffs(net))]>> ELSE <<>>)
RECURSIVE EffectiveNets(_, _)
EffectiveNets(nets, via) ==
    IF nets = <<>> THEN <<>>
    ELSE LET p == EffectivePins(Head(nets), via) IN
         (IF Len(p) <= 1 THEN <<>> ELSE <<[w4 |-> Head(nets).w4, pins |-> p]>>) \o EffectiveNets(Tail(nets), via)
\* the built model (weights x 1024) is the effective net list with every weight kept, at weight scale 1/div
BuiltAs(built, nets, via, div) ==
    LET eff == EffectiveNets(nets, via) IN
    /\ Len(built) = Len(eff)
    /\ \A k \in 1..Len(eff) : /\ built[k].exact /\ built[k].w1024 * div = eff[k].w4 * 256
                               /\ Len(built[k].pins) = Len(eff[k].pins)
                               /\ \A j \in 1..Len(eff[k].pins) : built[k].pins[j].c = eff[k].pins[j].c /\ built[k].pins[j].o4 = eff[k].pins[j].o4

Stationary(x, nets, n, slack) ==
    \A i \in 1..n : QAbs(GradTimes144(x, nets, i)) <= 144 * 2 * IncidentW4(nets, i) * slack
=============================================================================
