------------------------------- MODULE Orient -------------------------------
(***************************************************************************)
(* Orientation algebra of standard cells, built from the two generators   *)
(* R90 (rotate counter-clockwise) and MY (mirror about the Y axis) acting  *)
(* on a "view" [w, h, x, y]: a box [0,w] x [0,h] and a point (x,y) given   *)
(* in the lower-left coordinates of the box.  Written from the             *)
(* documentation in coloquinte.hpp (N = R0, S = R180, W = R90, E = R270,   *)
(* FN = MY, FS = MX, FW = "MX then W", FE = "MY then W"), NOT from the     *)
(* case tables of coloquinte.cpp / parameters.cpp, so that it is an        *)
(* independent oracle for C09 / C04.                                       *)
(***************************************************************************)
EXTENDS Integers, Sequences, FiniteSets

R90(v) == [w |-> v.h, h |-> v.w, x |-> v.h - v.y, y |-> v.x]
MY(v)  == [w |-> v.w, h |-> v.h, x |-> v.w - v.x, y |-> v.y]
MX(v)  == [w |-> v.w, h |-> v.h, x |-> v.x, y |-> v.h - v.y]

Orients == {"N", "S", "W", "E", "FN", "FS", "FW", "FE"}
RowOrients == {"N", "S", "FN", "FS"}
Polarities == {"ANY", "SAME", "OPPOSITE", "NW", "SE"}

Apply(o, v) == CASE o = "N"  -> v
                 [] o = "W"  -> R90(v)
                 [] o = "S"  -> R90(R90(v))
                 [] o = "E"  -> R90(R90(R90(v)))
                 [] o = "FN" -> MY(v)
                 [] o = "FS" -> MX(v)
                 [] o = "FW" -> R90(MX(v))
                 [] o = "FE" -> R90(MY(v))

IsTurn(o) == o \in {"W", "E", "FW", "FE"}
PlacedW(o, w, h) == IF IsTurn(o) THEN h ELSE w
PlacedH(o, w, h) == IF IsTurn(o) THEN w ELSE h

\* Position of a pin given in the unrotated cell frame, in the placed frame (relative to the lower-left
\* corner of the placed box).  Orientations outside the group (INVALID/UNKNOWN) are treated as N, which is
\* what the implementation's getters do; C04 separately forbids INVALID.
PinAt(o, w, h, dx, dy) ==
    LET oo == IF o \in Orients THEN o ELSE "N"
        r == Apply(oo, [w |-> w, h |-> h, x |-> dx, y |-> dy])
    IN <<r.x, r.y>>

\* A small probe set on which two orientations acting identically must be equal.
ProbeViews == { [w |-> 2, h |-> 3, x |-> 0, y |-> 0], [w |-> 2, h |-> 3, x |-> 1, y |-> 0],
                [w |-> 2, h |-> 3, x |-> 0, y |-> 1] }

\* "Opposite" row orientation: the row mirrored about the X axis (N <--> FS in the header).
\* Derived: the unique orientation that acts as MX after o.
OppositeRow(o) ==
    IF o \notin Orients THEN "INVALID"
    ELSE CHOOSE p \in Orients : \A v \in ProbeViews : Apply(p, v) = MX(Apply(o, v))

\* NW: rows "starting with N or W", flipping allowed;  SE: rows starting with S or E, flipping allowed.
NWRows == {"N", "FN", "W", "FW"}
SERows == {"S", "FS", "E", "FE"}

CellOrientationInRow(pol, ro) ==
    CASE pol = "ANY" -> "UNKNOWN"
      [] pol = "SAME" -> ro
      [] pol = "OPPOSITE" -> OppositeRow(ro)
      [] pol = "NW" -> IF ro \in NWRows THEN ro ELSE "INVALID"
      [] pol = "SE" -> IF ro \in SERows THEN ro ELSE "INVALID"

(***************************************************************************)
(* Laws checked by TLC (OrientCases.tla): the group has 8 elements, the    *)
(* documented aliases hold, and PinAt stays inside the placed box exactly  *)
(* when the pin is inside the cell.                                        *)
(***************************************************************************)
Laws(v) ==
    /\ MX(v) = R90(R90(MY(v)))
    /\ R90(R90(R90(R90(v)))) = v
    /\ Apply("FW", v) = R90(R90(R90(MY(v))))
    /\ Apply("FS", v) = MY(Apply("S", v))
    /\ \A o \in Orients : Apply(o, v).w = PlacedW(o, v.w, v.h) /\ Apply(o, v).h = PlacedH(o, v.w, v.h)
    /\ \A o \in Orients :
         LET r == Apply(o, v) IN
         (0 <= v.x /\ v.x <= v.w /\ 0 <= v.y /\ v.y <= v.h) <=> (0 <= r.x /\ r.x <= r.w /\ 0 <= r.y /\ r.y <= r.h)

OppositeLaws ==
    /\ \A o \in Orients : OppositeRow(OppositeRow(o)) = o
    /\ OppositeRow("N") = "FS" /\ OppositeRow("S") = "FN"
    /\ \A o \in Orients : IsTurn(OppositeRow(o)) = IsTurn(o)
    /\ Cardinality({ Apply(o, [w |-> 2, h |-> 3, x |-> 0, y |-> 1]) : o \in Orients }) = 8
=============================================================================
