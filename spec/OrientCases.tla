----------------------------- MODULE OrientCases -----------------------------
(***************************************************************************)
(* C09 / C04, spec -> code: enumerates every orientation x cell size x pin *)
(* offset and every (polarity, row orientation) pair, checks the algebraic *)
(* laws, and emits the expected values as JSON for replay into             *)
(* Circuit::placedWidth/placedHeight/pinXOffset/pinYOffset,                *)
(* oppositeRowOrientation, cellOrientationInRow, isTurn.                   *)
(***************************************************************************)
EXTENDS Integers, Sequences, FiniteSets, TLC, Json, Orient
CONSTANTS MaxDim, Halo
VARIABLES kind, o, v, pol

AllOrientNames == Orients \cup {"INVALID", "UNKNOWN"}

Init == \/ /\ kind = "pin" /\ pol = "ANY" /\ o \in Orients
           /\ v \in [w : 1..MaxDim, h : 1..MaxDim, x : (0 - Halo)..(MaxDim + Halo), y : (0 - Halo)..(MaxDim + Halo)]
        \/ /\ kind = "row" /\ pol \in Polarities /\ o \in Orients
           /\ v = [w |-> 1, h |-> 1, x |-> 0, y |-> 0]
Next == UNCHANGED <<kind, o, v, pol>>
Spec == Init /\ [][Next]_<<kind, o, v, pol>>

LawsHold == (kind = "pin" => Laws(v)) /\ OppositeLaws

Emit == IF kind = "pin"
        THEN PrintT(ToJson([k |-> "pin", o |-> o, w |-> v.w, h |-> v.h, dx |-> v.x, dy |-> v.y,
                            pw |-> PlacedW(o, v.w, v.h), ph |-> PlacedH(o, v.w, v.h),
                            px |-> PinAt(o, v.w, v.h, v.x, v.y)[1], py |-> PinAt(o, v.w, v.h, v.x, v.y)[2]]))
        ELSE PrintT(ToJson([k |-> "row", pol |-> pol, ro |-> o,
                            expect |-> IF pol = "ANY" THEN "UNKNOWN"
                                       ELSE IF o \in Orients THEN CellOrientationInRow(pol, o)
                                       ELSE IF pol = "SAME" THEN o ELSE "INVALID",
                            opp |-> OppositeRow(o),
                            turn |-> IsTurn(o)]))
=============================================================================
