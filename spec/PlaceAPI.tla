------------------------------ MODULE PlaceAPI ------------------------------
(***************************************************************************)
(* Constant-level contract of the public placement API, shared by the      *)
(* model-checked protocol specification (PlaceProtocol.tla) and by the     *)
(* trace specification (TraceCircuit.tla): outcome of structural setters,  *)
(* callback grammars of the three stages, and the signatures by which a    *)
(* contract failure is matched against /verif/KNOWN_FINDINGS.txt.          *)
(***************************************************************************)
EXTENDS Integers, Sequences, FiniteSets, Geometry

Stages == {"global", "legalize", "detailed"}

\* setters that modify the structure of the circuit and are refused while a placement call is in progress
StructuralSetters == {"addNet", "setNets", "setRows", "setupRows", "setCellIsFixed", "setCellIsObstruction",
                      "setCellRowPolarity"}
\* setters that are always allowed (positions, sizes, orientations: the documented way to feed back from callbacks)
FreeSetters == {"setCellX", "setCellY", "setCellOrientation", "setSolution", "setCellWidth", "setCellHeight",
                "setNetWeights"}

\* expected outcome of a setter call: "ok", "refused" (busy) or "error" (invalid argument)
SetterOutcome(busy, kind, valid) ==
    IF ~valid THEN "error"
    ELSE IF busy /\ kind \in StructuralSetters THEN "refused"
    ELSE "ok"

F_(p, why, sig) == [p |-> p, why |-> why, sig |-> sig]

SetterFails(busy, kind, valid, outcome, before, after) ==
    LET exp == SetterOutcome(busy, kind, valid) IN
    (IF outcome # exp /\ ~(~valid /\ busy /\ outcome = "refused")
     THEN {F_(IF valid THEN "C10" ELSE "C19", <<"setter outcome", kind, "busy", busy, "valid", valid, "got", outcome, "expected", exp>>,
              IF valid /\ ~busy /\ outcome = "refused" THEN "refused-after-end" ELSE "setter-" \o kind)}
     ELSE {}) \cup
    (IF outcome # "ok" /\ after # before
     THEN {F_(IF valid THEN "C10" ELSE "C19", <<"refused setter changed the circuit", kind>>, "setter-sideeffect")}
     ELSE {})

\* C19: the parameter constructor: efforts outside 1..9 are refused with an error, every effort 1..9 gives parameters
\* that pass the check
CtorFails(which, effort, outcome, passes) ==
    IF which = "LegalizationParameters" /\ effort \notin 1..9 THEN {}   \* this constructor does not use the effort
    ELSE IF effort \in 1..9
    THEN (IF outcome = "ok" /\ passes THEN {} ELSE {F_("C19", <<"effort in 1..9 refused or its parameters fail the check", effort, outcome, passes>>, "effort-valid")})
    ELSE (IF outcome = "error" THEN {} ELSE {F_("C19", <<"effort outside 1..9 accepted", effort>>, "effort-invalid")})

\* C19: a parameter field driven outside / on / inside one bound of its documented range
ParamValidExpected(rel, incl) == rel = "inside" \/ (rel = "at" /\ incl)
ParamCheckFails(ev) ==
    IF ev.outcome = "skip" THEN {}
    ELSE LET valid == ParamValidExpected(ev.rel, ev.incl) IN
         (IF (ev.outcome = "ok") # valid
          THEN {F_("C19", <<"parameter check", ev.field, ev.bound, ev.rel, "expected valid", valid, "got", ev.outcome>>, "param-" \o ev.field)} ELSE {}) \cup
         (IF ~valid /\ ev.outcome = "error" /\ ~(ev.rejectedCall /\ ev.sameAfter)
          THEN {F_("C19", <<"rejected parameters reached placement work or modified the circuit", ev.field>>, "reject-late")} ELSE {}) \cup
         \* per entry point (placeGlobal, legalize, placeDetailed), on a circuit on which the control call with valid parameters
         \* succeeded with callbacks and moved cells: the call is refused before the first callback and nothing changed
         (IF ~valid /\ ev.outcome = "error"
          THEN UNION { (IF ~(ev.stages[k].controlOk /\ ev.stages[k].controlMoved)
                        THEN {F_("framework", <<"control call did not succeed and move cells", ev.stages[k].stage>>, "control")} ELSE {}) \cup
                       (IF ~ev.stages[k].rejected
                        THEN {F_("C19", <<"rejected parameters accepted or callbacks ran", ev.stages[k].stage, ev.field, ev.stages[k].callbacks>>, "reject-late")} ELSE {}) \cup
                       (IF ~ev.stages[k].same
                        THEN {F_("C19", <<"call with rejected parameters modified the circuit", ev.stages[k].stage, ev.field>>, "reject-modified")} ELSE {})
                       : k \in 1..Len(ev.stages) }
          ELSE {})

---------------------------------------------------------------------------
(* The Circuit object as an abstract data type: what every public mutator  *)
(* must do to the state (cells, nets, rows), and when it must refuse.      *)
(* State and arguments are in the vocabulary of the trace projection:      *)
(* cells [w,h,f,ob,p,x,y,o], nets [wt (float bits), pins [c (1-based), dx, *)
(* dy]], rows [x0,x1,y0,y1,o].                                             *)
ONE_F == 1065353216   \* bit pattern of 1.0f, the default net weight
VecSetters == {"setCellX", "setCellY", "setCellWidth", "setCellHeight", "setCellIsFixed", "setCellIsObstruction",
               "setCellOrientation", "setCellRowPolarity", "setSolution"}
ApiValid(kind, a, c) ==
    LET n == Len(c.cells) IN
    IF kind \in VecSetters THEN Len(a.v) = n
    ELSE IF kind = "setNetWeights" THEN Len(a.v) = Len(c.nets)
    ELSE IF kind = "addNet" THEN Len(a.dx) = Len(a.cells) /\ Len(a.dy) = Len(a.cells) /\ \A k \in 1..Len(a.cells) : a.cells[k] \in 1..n
    ELSE IF kind = "setNets"
         THEN /\ Len(a.lim) >= 1 /\ a.lim[1] = 0
              /\ a.lim[Len(a.lim)] = Len(a.cells) /\ Len(a.dx) = Len(a.cells) /\ Len(a.dy) = Len(a.cells)
              /\ (Len(a.w) = 0 \/ Len(a.w) = Len(a.lim) - 1)
              /\ \A k \in 1..(Len(a.lim) - 1) : a.lim[k] <= a.lim[k + 1]
              /\ \A k \in 1..Len(a.cells) : a.cells[k] \in 1..n
    ELSE IF kind = "setupRows" THEN a.h > 0
    ELSE TRUE   \* setRows

PinsOf(cells, dx, dy, lo, hi) == [k \in 1..(hi - lo) |-> [c |-> cells[lo + k], dx |-> dx[lo + k], dy |-> dy[lo + k]]]
\* rows of setupRows: bottom-up strips of height h that fit entirely; orientation N / FS, alternating if asked, first = N iff init
RECURSIVE StripRows(_, _, _)
StripRows(a, y, orient) ==
    IF y + a.h > a.y1 THEN <<>>
    ELSE <<[x0 |-> a.x0, x1 |-> a.x1, y0 |-> y, y1 |-> y + a.h, o |-> IF orient THEN "N" ELSE "FS"]>> \o
         StripRows(a, y + a.h, IF a.alt THEN ~orient ELSE orient)
ApiEffect(kind, a, c) ==
    LET n == Len(c.cells)
        upd(f(_, _)) == [c EXCEPT !.cells = [i \in 1..n |-> f(c.cells[i], i)]] IN
    IF kind = "setCellX" THEN upd(LAMBDA e, i : [e EXCEPT !.x = a.v[i]])
    ELSE IF kind = "setCellY" THEN upd(LAMBDA e, i : [e EXCEPT !.y = a.v[i]])
    ELSE IF kind = "setCellWidth" THEN upd(LAMBDA e, i : [e EXCEPT !.w = a.v[i]])
    ELSE IF kind = "setCellHeight" THEN upd(LAMBDA e, i : [e EXCEPT !.h = a.v[i]])
    ELSE IF kind = "setCellIsFixed" THEN upd(LAMBDA e, i : [e EXCEPT !.f = a.v[i]])
    ELSE IF kind = "setCellIsObstruction" THEN upd(LAMBDA e, i : [e EXCEPT !.ob = a.v[i]])
    ELSE IF kind = "setCellOrientation" THEN upd(LAMBDA e, i : [e EXCEPT !.o = a.v[i]])
    ELSE IF kind = "setCellRowPolarity" THEN upd(LAMBDA e, i : [e EXCEPT !.p = a.v[i]])
    ELSE IF kind = "setSolution" THEN upd(LAMBDA e, i : [e EXCEPT !.x = a.v[i].x, !.y = a.v[i].y, !.o = a.v[i].o])
    ELSE IF kind = "setNetWeights" THEN [c EXCEPT !.nets = [k \in 1..Len(c.nets) |-> [c.nets[k] EXCEPT !.wt = a.v[k]]]]
    ELSE IF kind = "addNet"
         THEN (IF Len(a.cells) = 0 THEN c   \* an empty net is silently not added
               ELSE [c EXCEPT !.nets = Append(@, [wt |-> a.wt, pins |-> PinsOf(a.cells, a.dx, a.dy, 0, Len(a.cells))])])
    ELSE IF kind = "setNets"
         THEN [c EXCEPT !.nets = [k \in 1..(Len(a.lim) - 1) |->
                                    [wt |-> IF Len(a.w) = 0 THEN ONE_F ELSE a.w[k], pins |-> PinsOf(a.cells, a.dx, a.dy, a.lim[k], a.lim[k + 1])]]]
    ELSE IF kind = "setRows" THEN [c EXCEPT !.rows = a.rows]
    ELSE [c EXCEPT !.rows = StripRows(a, a.y0, a.init)]

\* one logged call: outcome and state after against the abstract data type; wirelength and placed sizes of the state defined by the calls
ApiFails(ev, before) ==
    LET valid == ApiValid(ev.kind, ev.arg, before)
        exp == IF valid THEN ApiEffect(ev.kind, ev.arg, before) ELSE before
        n == Len(exp.cells) IN
    (IF valid /\ ev.outcome # "ok" THEN {F_("C19", <<"a valid call was refused", ev.kind, ev.what>>, "api-valid-refused")} ELSE {}) \cup
    (IF ~valid /\ ev.outcome = "ok" THEN {F_("C19", <<"an invalid call was accepted", ev.kind, ev.arg>>, "api-invalid-accepted")} ELSE {}) \cup
    (IF ~valid /\ ev.circ # before THEN {F_("C19", <<"a refused call changed the circuit", ev.kind>>, "api-sideeffect")} ELSE {}) \cup
    \* the object must stay internally consistent (its own check()) after every call, refused or not
    (IF ev.check # "" THEN {F_("C19", <<"Circuit::check() fails after the call", ev.kind, ev.outcome, ev.check>>, "api-inconsistent")} ELSE {}) \cup
    \* the state after a valid call is the one the arguments define.  A difference is a failure of every property that is stated over
    \* the attribute concerned, as given by the caller: polarities (C04), fixed / obstruction flags and rows (C15: what counts as an
    \* obstruction, where the rows are), geometry and pins (C09), net weights (C17)
    (IF valid /\ ev.outcome = "ok" /\ ev.circ # exp
     THEN LET m == Len(exp.cells)
              same == Len(ev.circ.cells) = m
              diffOf(f(_)) == ~same \/ \E k \in 1..m : f(ev.circ.cells[k]) # f(exp.cells[k])
              pins(c) == [k \in 1..Len(c.nets) |-> c.nets[k].pins]
              wts(c) == [k \in 1..Len(c.nets) |-> c.nets[k].wt] IN
          {F_("note", <<"state after the call differs from the abstract data type", ev.kind, ev.arg>>, "api-effect-diff")} \cup
          (IF diffOf(LAMBDA e : e.p) THEN {F_("C04", <<"row polarities stored by the circuit differ from those given", ev.kind>>, "api-state-polarity")} ELSE {}) \cup
          (IF diffOf(LAMBDA e : <<e.f, e.ob>>) \/ ev.circ.rows # exp.rows
           THEN {F_("C15", <<"fixed / obstruction flags or rows stored by the circuit differ from those given", ev.kind>>, "api-state-flags"),
                 \* legality (C01) is stated over the fixed obstructions and the rows the caller declared
                 F_("C01", <<"fixed / obstruction flags or rows stored by the circuit differ from those given", ev.kind>>, "api-state-flags")} ELSE {}) \cup
          (IF diffOf(LAMBDA e : <<e.x, e.y, e.w, e.h, e.o>>) \/ pins(ev.circ) # pins(exp)
           THEN {F_("C09", <<"geometry or pins stored by the circuit differ from those given", ev.kind>>, "api-state-geometry")} ELSE {}) \cup
          (IF wts(ev.circ) # wts(exp) THEN {F_("C17", <<"net weights stored by the circuit differ from those given", ev.kind>>, "api-state-weights")} ELSE {})
     ELSE {F_("note", <<"api">>, "api-effect-same")}) \cup
    \* C09 on the state the calls define (not on the state the object claims to have)
    (IF (valid => ev.outcome = "ok") /\ ev.wl # Hpwl(exp)
     THEN {F_("C09", <<"wirelength of the state defined by the calls", ev.kind, ev.wl, Hpwl(exp)>>, "api-hpwl")} ELSE {}) \cup
    \* C15 on the state the calls define: flags as given by the caller, whatever the order of the calls
    \* (rows given by the caller may overlap one another: two rows can then yield the same free segment, so the comparison is on the set
    \* of segments and on their number, row by row)
    (IF (valid => ev.outcome = "ok") /\ (RowSet(ev.free) # FreeOfCircuit(exp, {}) \/ Len(ev.free) # FreeCount(exp))
     THEN {F_("C15", <<"free rows of the state defined by the calls", ev.kind, RowSet(ev.free), "expected", FreeOfCircuit(exp, {})>>, "api-free")} ELSE {}) \cup
    (IF (valid => ev.outcome = "ok") /\ (ev.pw # [i \in 1..n |-> PW(exp.cells[i])] \/ ev.ph # [i \in 1..n |-> PH(exp.cells[i])])
     THEN {F_("C09", <<"placed sizes of the state defined by the calls", ev.kind>>, "api-placed-size")} ELSE {})

---------------------------------------------------------------------------
(* The documented ranges of a whole parameter set (messages of the check() *)
(* functions / coloquinte.hpp).  Real-valued fields are logged as a code   *)
(* relative to their range: "b" below, "lo" at the lower bound, "in"       *)
(* inside, "hi" at the upper bound, "a" above; integer fields by value.    *)
\* inclusive bounds: [lower included, upper included]; fields absent from the table have both bounds included
ExclusiveLo == {"penalty.initialValue", "penalty.updateFactor", "global.penaltyUpdateDistance"}
ExclusiveHi == {"penalty.updateFactor"}
RealFieldOK(name, code) == code = "in" \/ (code = "lo" /\ name \notin ExclusiveLo) \/ (code = "hi" /\ name \notin ExclusiveHi)
ParamsValid(codes, i) ==
    /\ \A name \in DOMAIN codes : RealFieldOK(name, codes[name])
    \* rough legalization
    /\ i.nbSteps >= 0
    /\ i.lineSize >= 1 /\ i.diagSize >= 1 /\ i.squareSize >= 1
    /\ i.lineOverlap >= 1 /\ i.diagOverlap >= 1 /\ i.squareOverlap >= 1
    /\ i.lineSize <= 64 /\ i.diagSize <= 64 /\ i.squareSize <= 8
    /\ (i.lineSize >= 2 \/ i.diagSize >= 2 \/ i.squareSize >= 2 \/ (i.uni1d /\ i.roughL1))
    /\ (i.lineSize > 1 => i.lineOverlap < i.lineSize)
    /\ (i.diagSize > 1 => i.diagOverlap < i.diagSize)
    /\ (i.squareSize > 1 => i.squareOverlap < i.squareSize)
    \* global loop and continuous model
    /\ i.maxNbSteps >= 0 /\ i.nbInitialSteps >= 0 /\ i.nbInitialSteps < i.maxNbSteps
    /\ i.stepsBeforeRough >= 1 /\ i.cgSteps >= 1
    \* legalization and detailed placement
    /\ i.legL1
    /\ i.nbPasses >= 0 /\ i.lsNeighbours >= 0 /\ i.lsRows >= 0 /\ i.shiftNbRows >= 1 /\ i.shiftMaxNbCells >= 0
    /\ i.reorderingNbRows >= 1 /\ i.reorderingMaxNbCells >= 0
ParamSetFails(ev) ==
    LET valid == ParamsValid(ev.codes, ev.ints) IN
    (IF valid /\ ev.outcome # "ok" THEN {F_("C19", <<"a parameter set inside every documented range was rejected", ev.what>>, "paramset-valid-rejected")} ELSE {}) \cup
    (IF ~valid /\ ev.outcome = "ok" THEN {F_("C19", <<"a parameter set outside a documented range was accepted", ev.codes, ev.ints>>, "paramset-invalid-accepted")} ELSE {}) \cup
    (IF ev.outcome = "error" /\ ~ev.call.rejected
     THEN {F_("C19", <<"rejected parameters accepted by a placement call, or callbacks ran", ev.call.stage, ev.call.callbacks>>, "reject-late")} ELSE {}) \cup
    (IF ev.outcome = "error" /\ ~ev.call.same
     THEN {F_("C19", <<"call with rejected parameters modified the circuit", ev.call.stage>>, "reject-modified")} ELSE {})

\* callback grammars
RECURSIVE AllIn(_, _)
AllIn(s, S) == \A k \in 1..Len(s) : s[k] \in S
CountOf(s, v) == Cardinality({ k \in 1..Len(s) : s[k] = v })

GlobalGrammarOK(steps, p) ==
    \* L L^init (U P? L^k)* U : starts with a lower bound, ends with an upper bound, never two P in a row
    /\ Len(steps) >= 2 /\ steps[1] = "LowerBound" /\ steps[Len(steps)] = "UpperBound"
    /\ AllIn(steps, {"LowerBound", "UpperBound", "PenaltyUpdate"})
    /\ \A k \in 1..Len(steps) : steps[k] = "PenaltyUpdate" => (k > 1 /\ steps[k - 1] = "UpperBound")
    /\ CountOf(steps, "UpperBound") <= p.steps + 1
    /\ \A k \in 1..(p.init + 1) : k <= Len(steps) => steps[k] = "LowerBound"

GrammarFails(stage, steps, cb, p) ==
    IF ~cb THEN (IF steps = <<>> THEN {} ELSE {F_("C10", <<"callback without a callback installed">>, "grammar")})
    ELSE IF stage = "legalize"
         THEN (IF steps = <<"Detailed">> THEN {} ELSE {F_("C10", <<"legalize callbacks", steps>>, "grammar")})
    ELSE IF stage = "detailed"
         THEN (IF Len(steps) >= 1 /\ AllIn(steps, {"Detailed"}) /\ Len(steps) <= 1 + 3 * p.passes THEN {}
               ELSE {F_("C10", <<"detailed callbacks", steps>>, "grammar")})
    ELSE (IF GlobalGrammarOK(steps, p) THEN {} ELSE {F_("C06", <<"global callbacks", steps>>, "grammar")})

---------------------------------------------------------------------------
(* Signatures: computed from the failing case, so that a different          *)
(* violation of the same property is still reported.                       *)

LegalSignature(c) == "illegal"
OrientSignature(c0, c) == "orientation"
\* D6: detailed placement optimises a wirelength whose pin offsets are frozen at the orientations of the
\* legalized placement (ref0).  Signature: the true wirelength increased from prev to c although the
\* frozen-offset wirelength did not.
WithOrient(c, r) == [c EXCEPT !.cells = [i \in 1..Len(c.cells) |-> [c.cells[i] EXCEPT !.o = r.cells[i].o]]]
WlSignature(ref0, prev, c) ==
    IF Hpwl(WithOrient(c, ref0)) <= Hpwl(WithOrient(prev, ref0)) /\ (WithOrient(c, ref0) # c \/ WithOrient(prev, ref0) # prev)
    THEN "frozen-pin-offsets-after-reorientation"
    ELSE "wirelength"
C11Signature(p) == IF p.ow < 0 \/ p.ow > 1000 THEN "ordering-width-outside-0-1" ELSE "moved"
ThrowSignature(entry, what) == "detailed-throw"
\* a hang is identified by where it hangs (class computed by the alarm handler of the harness from the innermost
\* library frames)
FateSignature(ev, c) == IF ev.e = "Timeout" THEN "timeout-" \o ev.hang
                       ELSE IF ev.e = "Sanitizer" /\ ev.san = "float-cast" /\ FloatingNetlist(c) THEN "nan-floating-netlist"
                       ELSE "fate"
=============================================================================
