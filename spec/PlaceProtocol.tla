---------------------------- MODULE PlaceProtocol ----------------------------
(***************************************************************************)
(* C10 / C19 design level: the busy-circuit protocol of the placement      *)
(* entry points as a state machine over an abstract circuit                *)
(* (structure version, placement version).  Actions mirror the critical    *)
(* sections of Circuit::placeGlobal/legalize/placeDetailed and of the      *)
(* setters: Begin sets the in-use flag (scope guard), parameters are       *)
(* checked before any work, every callback exposes a placement, a          *)
(* callback / an infeasible legalization / rejected parameters end the     *)
(* call by an exception; structural setters consult the flag first.        *)
(* The outcome of setters is the shared operator PlaceAPI.SetterOutcome    *)
(* that the trace specification also uses.                                 *)
(* Guard = FALSE models the pinned tree before the repair of D1 (flag      *)
(* reset only on normal return): TLC then finds the violation of           *)
(* IdleMeansUnlocked in 3 steps.                                           *)
(***************************************************************************)
EXTENDS Integers, Sequences, FiniteSets, TLC, PlaceAPI
CONSTANTS MaxCb,      \* callbacks per call
          MaxCalls,   \* placement calls per behaviour
          MaxSetters, \* successful structural setters per behaviour
          Guard       \* TRUE: in-use flag managed by a scope guard

VARIABLES flag,      \* Circuit::isInUse_
          phase,     \* "idle", "checking", "running", "cb", "unwinding"
          stage, ncb,
          struct,    \* version of the structural part of the circuit
          place,     \* version of the placement
          atBegin,   \* <<struct, place>> at Begin
          calls, setters,
          lastSetter \* outcome of the last setter attempt: <<kind, expected, got>>
vars == <<flag, phase, stage, ncb, struct, place, atBegin, calls, setters, lastSetter>>

Init == /\ flag = FALSE /\ phase = "idle" /\ stage = "" /\ ncb = 0 /\ struct = 0 /\ place = 0
        /\ atBegin = <<0, 0>> /\ calls = 0 /\ setters = 0 /\ lastSetter = <<"", "ok", "ok">>

Begin(st) == /\ phase = "idle" /\ calls < MaxCalls
             /\ flag' = TRUE /\ phase' = "checking" /\ stage' = st /\ ncb' = 0
             /\ atBegin' = <<struct, place>> /\ calls' = calls + 1
             /\ UNCHANGED <<struct, place, setters, lastSetter>>
\* params.check() is the first thing every stage does
ParamsOK == /\ phase = "checking" /\ phase' = "running"
            /\ UNCHANGED <<flag, stage, ncb, struct, place, atBegin, calls, setters, lastSetter>>
RejectParams == /\ phase = "checking" /\ phase' = "unwinding"
                /\ UNCHANGED <<flag, stage, ncb, struct, place, atBegin, calls, setters, lastSetter>>
\* a callback: the stage first exports a placement, then calls out
Callback == /\ phase = "running" /\ ncb < MaxCb
            /\ place' = place + 1 /\ ncb' = ncb + 1 /\ phase' = "cb"
            /\ UNCHANGED <<flag, stage, struct, atBegin, calls, setters, lastSetter>>
CbReturn == /\ phase = "cb" /\ phase' = "running"
            /\ UNCHANGED <<flag, stage, ncb, struct, place, atBegin, calls, setters, lastSetter>>
CbThrow == /\ phase = "cb" /\ phase' = "unwinding"
           /\ UNCHANGED <<flag, stage, ncb, struct, place, atBegin, calls, setters, lastSetter>>
\* legalization that cannot place every cell throws before exporting anything
Infeasible == /\ phase = "running" /\ stage \in {"legalize", "detailed"} /\ ncb = 0
              /\ phase' = "unwinding"
              /\ UNCHANGED <<flag, stage, ncb, struct, place, atBegin, calls, setters, lastSetter>>
EndReturn == /\ phase = "running"
             /\ place' = place + 1 /\ phase' = "idle" /\ flag' = FALSE
             /\ UNCHANGED <<stage, ncb, struct, atBegin, calls, setters, lastSetter>>
EndThrow == /\ phase = "unwinding"
            /\ phase' = "idle" /\ flag' = (IF Guard THEN FALSE ELSE flag)
            /\ UNCHANGED <<stage, ncb, struct, place, atBegin, calls, setters, lastSetter>>

\* a structural setter called from outside (idle) or from inside a callback
Setter(kind) ==
    /\ phase \in {"idle", "cb"} /\ setters < MaxSetters
    /\ LET got == IF flag THEN "refused" ELSE "ok"
           exp == SetterOutcome(phase # "idle", kind, TRUE) IN
       /\ lastSetter' = <<kind, exp, got>>
       /\ struct' = IF got = "ok" THEN struct + 1 ELSE struct
       /\ setters' = IF got = "ok" THEN setters + 1 ELSE setters
    /\ UNCHANGED <<flag, phase, stage, ncb, place, atBegin, calls>>

Next == \/ \E st \in Stages : Begin(st)
        \/ ParamsOK \/ RejectParams \/ Callback \/ CbReturn \/ CbThrow \/ Infeasible \/ EndReturn \/ EndThrow
        \/ \E k \in StructuralSetters : Setter(k)
Spec == Init /\ [][Next]_vars /\ WF_vars(ParamsOK \/ RejectParams) /\ WF_vars(CbReturn \/ CbThrow) /\ WF_vars(EndThrow) /\ WF_vars(EndReturn \/ Callback \/ Infeasible)

---------------------------------------------------------------------------
IdleMeansUnlocked == (phase = "idle") <=> ~flag
SettersAsContract == lastSetter[2] = lastSetter[3]
\* the structure of the circuit changes only by a successful setter outside any call
StructureStable == phase # "idle" => struct = atBegin[1]
\* rejected parameters and a failed legalization leave the placement exactly as it was
NoWorkBeforeReject == [][(phase = "checking" /\ phase' = "unwinding") => place' = atBegin[2]]_vars
FailedLegalizationUntouched == [][(phase = "running" /\ phase' = "unwinding") => place = atBegin[2]]_vars
EveryCallEnds == [](phase # "idle" => <>(phase = "idle"))
=============================================================================
