---------------------------- MODULE RowCriterion ----------------------------
(***************************************************************************)
(* Self-check of the product-free optimality criterion used to validate    *)
(* single-row legalizations at large coordinates (C12): an ordered,        *)
(* non-overlapping placement inside [B,E) minimises the width-weighted     *)
(* displacement iff no suffix of a run of abutting cells gains by moving   *)
(* one unit right and no prefix gains by moving one unit left.  Checked    *)
(* here against the brute-force optimum on every placement of every small  *)
(* instance.                                                               *)
(***************************************************************************)
EXTENDS Integers, Sequences, FiniteSets, TLC, BigNat, RowOps
CONSTANTS LMax, WMax, NMax, TNeg, TPos
VARIABLES E, cells, pl
B == 0

RECURSIVE RemW(_, _)
RemW(cs, i) == IF i > Len(cs) THEN 0 ELSE cs[i][1] + RemW(cs, i + 1)
RECURSIVE OptFrom(_, _, _)
OptFrom(cs, i, pos) ==
  IF i > Len(cs) THEN 0
  ELSE LET cands == { cs[i][1] * Abs(x - cs[i][2]) + OptFrom(cs, i + 1, x + cs[i][1]) : x \in pos..(E - RemW(cs, i)) }
       IN CHOOSE m \in cands : \A o \in cands : m <= o
RECURSIVE CostFrom(_, _, _)
CostFrom(cs, p, i) == IF i > Len(cs) THEN 0 ELSE cs[i][1] * Abs(p[i] - cs[i][2]) + CostFrom(cs, p, i + 1)

Init == /\ E \in 1..LMax
        /\ \E n \in 1..NMax : cells \in [1..n -> (1..WMax) \X ((0 - TNeg)..(LMax + TPos))]
        /\ pl \in [1..Len(cells) -> 0..(LMax - 1)]
        /\ Feasible(cells, pl, B, E)
Next == UNCHANGED <<E, cells, pl>>
Spec == Init /\ [][Next]_<<E, cells, pl>>
CriterionExact == SubgradOptimal(cells, pl, B, E) <=> (CostFrom(cells, pl, 1) = OptFrom(cells, 1, B))
BigNatOK == SelfTest
=============================================================================
