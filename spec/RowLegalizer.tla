---------------------------- MODULE RowLegalizer ----------------------------
(***************************************************************************)
(* C12: the single-row legalizer.                                          *)
(*                                                                         *)
(* Implementation-shaped layer (RowImpl): a transcription of the cascading *)
(* descent of RowLegalizer::getDisplacement: a priority queue of bounds    *)
(* <<absolutePos, weight>> (here a sequence sorted top first), popped      *)
(* while the slope is negative or the position is beyond the right limit,  *)
(* re-pushed when only querying; constrainingPos / cumWidth; running       *)
(* minimum from the right in getPlacement.                                 *)
(*                                                                         *)
(* Contract layer: cells inserted in order into the segment [B, E) keep    *)
(* their order, do not overlap, stay inside, minimise the total            *)
(* width-weighted displacement among all such placements (brute force over *)
(* all ordered placements), the reported costs sum to that minimum, and a  *)
(* cost query changes nothing.                                             *)
(***************************************************************************)
EXTENDS Integers, Sequences, FiniteSets, TLC, Json
CONSTANTS LMax,     \* segment length 1..LMax
          BMax,     \* segment begin 0..BMax
          WMax,     \* widths 1..WMax
          NMax,     \* number of cells
          TNeg,     \* targets from B-TNeg ..
          TPos,     \* .. to E+TPos
          Fixed     \* TRUE: the algorithm with the repair of D3 (bound re-pushed at the clamped position)

VARIABLES B, E, cells, cum, cpos, bounds, costs, queried
vars == <<B, E, cells, cum, cpos, bounds, costs, queried>>

Abs(x) == IF x < 0 THEN -x ELSE x
Min(a, b) == IF a < b THEN a ELSE b
Max(a, b) == IF a > b THEN a ELSE b
Used == cum[Len(cum)]

\* priority queue as a sequence sorted descending by (pos, weight); top = Head
Gt(a, b) == a[1] > b[1] \/ (a[1] = b[1] /\ a[2] > b[2])
RECURSIVE Ins(_, _)
Ins(bs, b) == IF bs = <<>> THEN <<b>>
              ELSE IF Gt(b, Head(bs)) \/ b = Head(bs) THEN <<b>> \o bs
              ELSE <<Head(bs)>> \o Ins(Tail(bs), b)
RECURSIVE InsAll(_, _)
InsAll(bs, ps) == IF ps = <<>> THEN bs ELSE InsAll(Ins(bs, Head(ps)), Tail(ps))

\* the cascading descent: returns remaining queue, popped bounds, slope, position, cost
RECURSIVE Descend(_, _, _, _, _, _, _)
Descend(bs, passed, slope, cur, cost, w, tAbs) ==
  IF bs # <<>> /\ ((slope < 0 /\ Head(bs)[1] > tAbs) \/ Head(bs)[1] > E - Used - w)
  THEN Descend(Tail(bs), Append(passed, Head(bs)), slope + Head(bs)[2], Head(bs)[1],
               cost + (cur - Head(bs)[1]) * (slope + w), w, tAbs)
  ELSE [bs |-> bs, passed |-> passed, slope |-> slope, cur |-> cur, cost |-> cost]

Disp(w, t) ==
  LET tAbs == t - Used
      d == Descend(bounds, <<>>, 0 - w, E, 0, w, tAbs)
      fin == Min(E - Used - w, Max(B, IF d.slope >= 0 THEN d.cur ELSE tAbs))
      cost == d.cost + (d.cur - fin) * (d.slope + w) + w * Abs(fin - tAbs)
      b1 == IF d.slope > 0 THEN Ins(d.bs, <<IF Fixed THEN Min(d.cur, fin) ELSE d.cur, d.slope>>) ELSE d.bs
      b2 == IF tAbs > B THEN Ins(b1, <<Min(tAbs, fin), 2 * w + Min(d.slope, 0)>>) ELSE b1
  IN [cost |-> cost, fin |-> fin, bs |-> b2, requeued |-> InsAll(d.bs, d.passed)]

\* getPlacement: running minimum from the right of constrainingPos, plus cumulative width
RECURSIVE RunMin(_, _)
RunMin(s, i) == IF i = Len(s) THEN s[i] ELSE Min(s[i], RunMin(s, i + 1))
Placement == [i \in 1..Len(cpos) |-> RunMin(cpos, i) + cum[i]]

---------------------------------------------------------------------------
(* Contract: brute-force optimum over all ordered non-overlapping placements inside [B,E) *)
RECURSIVE RemW(_, _)
RemW(cs, i) == IF i > Len(cs) THEN 0 ELSE cs[i][1] + RemW(cs, i + 1)
RECURSIVE OptFrom(_, _, _)
OptFrom(cs, i, pos) ==
  IF i > Len(cs) THEN 0
  ELSE LET cands == { cs[i][1] * Abs(x - cs[i][2]) + OptFrom(cs, i + 1, x + cs[i][1]) :
                      x \in pos..(E - RemW(cs, i)) }
       IN CHOOSE m \in cands : \A o \in cands : m <= o
Opt(cs) == OptFrom(cs, 1, B)
RECURSIVE CostFrom(_, _, _)
CostFrom(cs, pl, i) == IF i > Len(cs) THEN 0 ELSE cs[i][1] * Abs(pl[i] - cs[i][2]) + CostFrom(cs, pl, i + 1)
CostOf(cs, pl) == CostFrom(cs, pl, 1)
RECURSIVE SumSeq(_, _)
SumSeq(s, i) == IF i > Len(s) THEN 0 ELSE s[i] + SumSeq(s, i + 1)

---------------------------------------------------------------------------
Init == /\ B \in 0..BMax /\ E \in (B + 1)..(B + LMax)
        /\ cells = <<>> /\ cum = <<0>> /\ cpos = <<>> /\ bounds = <<>> /\ costs = <<>> /\ queried = FALSE

Push(w, t) ==
  /\ Len(cells) < NMax /\ Used + w <= E - B
  /\ LET d == Disp(w, t) IN
     /\ cells' = Append(cells, <<w, t>>)
     /\ cum' = Append(cum, Used + w)
     /\ cpos' = Append(cpos, d.fin)
     /\ bounds' = d.bs
     /\ costs' = Append(costs, d.cost)
  /\ queried' = FALSE
  /\ UNCHANGED <<B, E>>

\* a cost query: pops and re-pushes the passed bounds
GetCost(w, t) ==
  /\ ~queried /\ Len(cells) < NMax /\ Used + w <= E - B
  /\ bounds' = Disp(w, t).requeued
  /\ queried' = TRUE
  /\ UNCHANGED <<B, E, cells, cum, cpos, costs>>

Next == \E w \in 1..WMax, t \in (B - TNeg)..(B + LMax + TPos) : Push(w, t) \/ GetCost(w, t)
Spec == Init /\ [][Next]_vars

---------------------------------------------------------------------------
(* Properties (checked on the implementation-shaped layer = refinement of the contract) *)
Ordered == \A i \in 1..Len(cells) :
             /\ Placement[i] >= B /\ Placement[i] + cells[i][1] <= E
             /\ (i < Len(cells) => Placement[i] + cells[i][1] <= Placement[i + 1])
Optimal == CostOf(cells, Placement) = Opt(cells)
CostExact == SumSeq(costs, 1) = Opt(cells)
\* a query leaves the queue exactly as it was
QueryPure == [][\A w \in 1..WMax, t \in (B - TNeg)..(B + LMax + TPos) : GetCost(w, t) => bounds' = bounds]_vars
QueueSorted == \A i \in 1..(Len(bounds) - 1) : Gt(bounds[i], bounds[i + 1]) \/ bounds[i] = bounds[i + 1]

Emit == queried \/ PrintT(ToJson([k |-> "rowleg", b |-> B, e |-> E, cells |-> cells, costs |-> costs,
                                  placement |-> Placement, opt |-> Opt(cells)]))
=============================================================================
