------------------------------- MODULE RowOps -------------------------------
(***************************************************************************)
(* Contract operators of the single-row problem (C12) that need no         *)
(* products: feasibility of an ordered placement and the unit-move         *)
(* (subgradient) optimality criterion; RowCriterion.tla checks the         *)
(* criterion against the brute-force optimum.                              *)
(***************************************************************************)
EXTENDS Integers, Sequences
Abs(x) == IF x < 0 THEN -x ELSE x

RECURSIVE SumW(_, _, _)
SumW(f, i, j) == IF i > j THEN 0 ELSE f[i] + SumW(f, i + 1, j)

Feasible(cs, p, b, e) ==
    /\ Len(p) = Len(cs)
    /\ \A i \in 1..Len(cs) : p[i] >= b /\ p[i] + cs[i][1] <= e /\ (i < Len(cs) => p[i] + cs[i][1] <= p[i + 1])
Abut(cs, p, i) == i < Len(cs) /\ p[i] + cs[i][1] = p[i + 1]
\* j..k is a run of abutting cells
Run(cs, p, j, k) == \A i \in j..(k - 1) : Abut(cs, p, i)
\* gain of moving cells j..k one unit right / left (negative = improvement)
DeltaRight(cs, p, j, k) == SumW([i \in 1..Len(cs) |-> IF p[i] >= cs[i][2] THEN cs[i][1] ELSE 0 - cs[i][1]], j, k)
DeltaLeft(cs, p, j, k) == SumW([i \in 1..Len(cs) |-> IF p[i] <= cs[i][2] THEN cs[i][1] ELSE 0 - cs[i][1]], j, k)
SubgradOptimal(cs, p, b, e) ==
    /\ \A j \in 1..Len(cs), k \in 1..Len(cs) :
         (j <= k /\ Run(cs, p, j, k) /\ ~Abut(cs, p, k) /\ p[k] + cs[k][1] < e) => DeltaRight(cs, p, j, k) >= 0
    /\ \A j \in 1..Len(cs), k \in 1..Len(cs) :
         (j <= k /\ Run(cs, p, j, k) /\ (j = 1 \/ ~Abut(cs, p, j - 1)) /\ p[j] > b) => DeltaLeft(cs, p, j, k) >= 0

=============================================================================
