------------------------------ MODULE ShapeTable ------------------------------
(***************************************************************************)
(* C07: the case table of degenerate shapes x coordinate magnitudes x      *)
(* stages, and the outcome alphabet of a placement call.  A call that has  *)
(* begun ends with Return or Throw; Abort, Sanitizer and Timeout are not   *)
(* in the alphabet (the trace specification has no accepting action for    *)
(* them: TraceCircuit.BadFate records a contract failure).  TLC emits the  *)
(* complete table; the C++ generator instantiates each case.               *)
(***************************************************************************)
EXTENDS Integers, Sequences, FiniteSets, TLC, Json
CONSTANT Variants
Shapes == {"singleRow", "singleCell", "noNets", "degree1Nets", "allPinsOneCell", "zeroSizeTerminals", "allFixedButOne",
           "infeasibleDensity", "splitRows", "macros", "wideCells", "manyRows", "plain"}
Magnitudes == {0, 10, 16, 20, 22}       \* coordinates up to about 2^m, every cell area below 2^31
Outcomes == {"Return", "Throw"}
VARIABLES shape, mag, variant
Init == shape \in Shapes /\ mag \in Magnitudes /\ variant \in 1..Variants
Next == UNCHANGED <<shape, mag, variant>>
Spec == Init /\ [][Next]_<<shape, mag, variant>>
Emit == PrintT(ToJson([scen |-> "c07", shape |-> shape, mag |-> mag, variant |-> variant]))
=============================================================================
