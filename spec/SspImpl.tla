------------------------------- MODULE SspImpl -------------------------------
(***************************************************************************)
(* C13 design level: the successive-shortest-path algorithm of             *)
(* TransportationSuccessiveShortestPath.  Sources are sent one by one      *)
(* (largest demand first); each augmentation sends the bottleneck amount   *)
(* along a shortest path of the residual graph on the sinks, from the      *)
(* sink that is cheapest for the source (cost + distance to spare          *)
(* capacity, lowest index among equals, as bestSink) to a sink with spare  *)
(* capacity, moving along every edge a source of minimum moving cost.      *)
(* Where the implementation's choice depends on the order of its priority  *)
(* queues (which shortest path, which of several equally cheap sources)    *)
(* the specification is nondeterministic, so the real plan must be one of  *)
(* the plans reachable here.  Invariant: after every augmentation the      *)
(* partial plan is optimal for what has been sent (no negative residual    *)
(* cycle); at the end the plan is feasible and its cost is the brute-force *)
(* minimum.                                                                *)
(***************************************************************************)
EXTENDS Integers, Sequences, FiniteSets, TLC, Json, TransportOps
CONSTANTS NS, NR, DMax, CMax, KMax
Sinks == 1..NS
Srcs == 1..NR
VARIABLES cap, dem, cost, alloc, rem, todo, left
vars == <<cap, dem, cost, alloc, rem, todo, left>>

\* sources by decreasing demand, then index (sortedSourcesByDemand)
RECURSIVE SortSrc(_, _)
SortSrc(d, S) == IF S = {} THEN <<>>
                 ELSE LET m == CHOOSE s \in S : \A t \in S : d[s] > d[t] \/ (d[s] = d[t] /\ s <= t) IN <<m>> \o SortSrc(d, S \ {m})
Init == /\ cap \in [Sinks -> 1..CMax] /\ dem \in [Srcs -> 1..DMax] /\ TSum(dem, NR) <= TSum(cap, NS)
        /\ cost \in [Sinks -> [Srcs -> 0..KMax]]
        /\ alloc = [i \in Sinks |-> [s \in Srcs |-> 0]] /\ rem = cap
        /\ todo = SortSrc(dem, Srcs) /\ left = dem[Head(SortSrc(dem, Srcs))]

\* moving cost of the cheapest source from sink i to sink j (INF if sink i holds nothing)
Move(i, j) == LET ws == { cost[j][s] - cost[i][s] : s \in { s \in Srcs : alloc[i][s] > 0 } } IN
              IF ws = {} THEN INF ELSE CHOOSE w \in ws : \A o \in ws : w <= o
\* distance of every sink to spare capacity (Bellman-Ford, NS rounds)
RECURSIVE Dist(_)
Dist(k) == IF k = 0 THEN [i \in Sinks |-> IF rem[i] > 0 THEN 0 ELSE INF]
           ELSE LET d == Dist(k - 1) IN
                [i \in Sinks |-> IF rem[i] > 0 THEN 0
                                 ELSE LET cs == { Move(i, j) + d[j] : j \in { j \in Sinks : j # i /\ Move(i, j) < INF /\ d[j] < INF } } \cup {d[i]}
                                      IN CHOOSE m \in cs : \A o \in cs : m <= o]
D == Dist(NS)
BestSink(src) == CHOOSE i \in Sinks : /\ D[i] < INF
                                      /\ \A j \in Sinks : D[j] < INF => (D[i] + cost[i][src] < D[j] + cost[j][src] \/ (D[i] + cost[i][src] = D[j] + cost[j][src] /\ i <= j))
\* shortest paths from i to spare capacity as sequences of <<sink, moved source>> hops
Paths(i) == { p \in UNION { [1..n -> Sinks \X Srcs] : n \in 0..(NS - 1) } :
                LET node(k) == IF k = 0 THEN i ELSE p[k][1] IN
                /\ \A k \in 1..Len(p) : /\ rem[node(k - 1)] = 0
                                        /\ alloc[node(k - 1)][p[k][2]] > 0
                                        /\ cost[node(k)][p[k][2]] - cost[node(k - 1)][p[k][2]] = Move(node(k - 1), node(k))
                                        /\ D[node(k - 1)] = Move(node(k - 1), node(k)) + D[node(k)]
                                        /\ \A q \in 0..(k - 1) : node(q) # node(k)
                /\ rem[node(Len(p))] > 0 }
Augment ==
    /\ todo # <<>> /\ left > 0
    /\ LET src == Head(todo)
           i0 == BestSink(src) IN
       \E p \in Paths(i0) :
          LET node(k) == IF k = 0 THEN i0 ELSE p[k][1]
              amounts == {left, rem[node(Len(p))]} \cup { alloc[node(k - 1)][p[k][2]] : k \in 1..Len(p) }
              m == CHOOSE a \in amounts : \A b \in amounts : a <= b
              delta(i, s) == (IF i = i0 /\ s = src THEN m ELSE 0)
                             + TSum([k \in 1..Len(p) |-> (IF node(k) = i /\ p[k][2] = s THEN m ELSE 0) - (IF node(k - 1) = i /\ p[k][2] = s THEN m ELSE 0)], Len(p))
          IN /\ alloc' = [i \in Sinks |-> [s \in Srcs |-> alloc[i][s] + delta(i, s)]]
             /\ rem' = [rem EXCEPT ![node(Len(p))] = @ - m]
             /\ IF left - m > 0 THEN left' = left - m /\ todo' = todo
                ELSE todo' = Tail(todo) /\ left' = IF Tail(todo) = <<>> THEN 0 ELSE dem[Head(Tail(todo))]
    /\ UNCHANGED <<cap, dem, cost>>
Next == Augment
Spec == Init /\ [][Next]_vars

Cost(a) == TSum([i \in Sinks |-> TSum([s \in Srcs |-> a[i][s] * cost[i][s]], NR)], NS)
Allocs == [Sinks -> [Srcs -> 0..DMax]]
MinCost == LET cs == { Cost(a) : a \in { a \in Allocs : TFeasible(cap, dem, a) } } IN CHOOSE m \in cs : \A o \in cs : m <= o
\* every partial plan is optimal for what has been sent so far
PartialOptimal == NoNegCycle(cap, dem, cost, alloc)
CapacityRespected == \A i \in Sinks : UsedCap(alloc, i, NR) + rem[i] = cap[i] /\ rem[i] >= 0
FinalOptimal == todo = <<>> => TFeasible(cap, dem, alloc) /\ Cost(alloc) = MinCost
Progress == todo # <<>> => ENABLED Augment
Emit == todo # <<>> \/ PrintT(ToJson([k |-> "ssp", cap |-> cap, dem |-> dem, cost |-> cost, alloc |-> alloc]))
=============================================================================
