------------------------------- MODULE T1dImpl -------------------------------
(***************************************************************************)
(* C14 design level: the sweep of Transportation1dSolver, transcribed one  *)
(* action per method call.  Sources and sinks are sorted by position and   *)
(* have positive supply / demand (what Transportation1dSorter hands over). *)
(* The solver keeps, for the sources pushed so far, the position p[i] of   *)
(* source i on the line of cumulated demand (source i occupies             *)
(* S[i]+p[i] .. S[i+1]+p[i]), the last position, the last occupied sink,   *)
(* the sink that is cheapest for the current source, and a priority queue  *)
(* of events (position, change of slope).  Only the greatest position of   *)
(* the queue is ever looked at and events of one position are summed when  *)
(* read, so the queue is modelled as a function position -> sum of slopes  *)
(* on the set of positions that hold at least one event.                   *)
(*                                                                         *)
(* Checked here: the sweep terminates; positions never decrease from one   *)
(* source to the next after the final flush; the plan read off the         *)
(* positions (computeSolution) is feasible and of minimum cost (no         *)
(* negative cycle in the residual graph); the rounded assignment           *)
(* (computeAssignment) satisfies the contract Assign1dOK.  Every final     *)
(* state is emitted and replayed into a real Transportation1dSolver: plan  *)
(* and assignment must be equal, entry by entry (the algorithm is          *)
(* deterministic).                                                         *)
(***************************************************************************)
EXTENDS Integers, Sequences, FiniteSets, TLC, Json, TransportOps
CONSTANTS NR, NS, PMax, SMax, DMax

VARIABLES u, v, s, d,        \* the instance (sorted, positive)
          i,                 \* source being pushed (1-based; NR + 1 when all are pushed)
          p,                 \* positions of the sources pushed so far
          ev,                \* event queue: position -> sum of slope changes
          lastPos, lastOcc,  \* lastPosition, lastOccupiedSink (1-based)
          optSink,           \* optimalSink (1-based)
          pc                 \* "push" | "loop" | "flush" | "done"
vars == <<u, v, s, d, i, p, ev, lastPos, lastOcc, optSink, pc>>

Max2(a, b) == IF a > b THEN a ELSE b
Min2(a, b) == IF a < b THEN a ELSE b
\* cumulated supplies / demands: SS(k) = s[1] + .. + s[k], DD(k) likewise (S[k], D[k] of the code, 0-based there)
SS(k) == TSum(s, k)
DD(k) == TSum(d, k)
Cost(a, b) == AbsT(u[a] - v[b])
Delta(a, b) == Cost(a, b + 1) + Cost(a + 1, b) - Cost(a + 1, b + 1) - Cost(a, b)

Sorted(f, n) == \A k \in 1..(n - 1) : f[k] <= f[k + 1]
Init == /\ u \in [1..NR -> 0..PMax] /\ v \in [1..NS -> 0..PMax] /\ Sorted(u, NR) /\ Sorted(v, NS)
        /\ s \in [1..NR -> 1..SMax] /\ d \in [1..NS -> 1..DMax] /\ TSum(s, NR) <= TSum(d, NS)
        /\ i = 1 /\ p = <<>> /\ ev = << >> /\ lastPos = 0 /\ lastOcc = 1 /\ optSink = 1 /\ pc = "push"

\* queue helpers ----------------------------------------------------------
EvAdd(q, pos, dl) == IF pos <= 0 THEN q
                     ELSE IF pos \in DOMAIN q THEN [q EXCEPT ![pos] = @ + dl]
                     ELSE [x \in DOMAIN q \cup {pos} |-> IF x = pos THEN dl ELSE q[x]]
EvTop(q) == CHOOSE x \in DOMAIN q : \A y \in DOMAIN q : y <= x
EvDrop(q, pos) == [x \in DOMAIN q \ {pos} |-> q[x]]
\* getSlope(pop): the sum of the events at lastPosition if they are on top of the queue; they leave the queue, and unless
\* pop is set (or the sum is zero) one event carrying the sum is put back
SlopeAt(q, pos) == IF DOMAIN q # {} /\ EvTop(q) = pos THEN q[pos] ELSE 0
AfterGetSlope(q, pos, pop) ==
    IF DOMAIN q # {} /\ EvTop(q) = pos
    THEN (IF ~pop /\ q[pos] # 0 THEN q ELSE EvDrop(q, pos))
    ELSE q

\* updateOptimalSink(i): walk right while the next sink is not dearer
RECURSIVE OptFrom(_, _)
OptFrom(a, j) == IF j + 1 <= NS /\ Cost(a, j) >= Cost(a, j + 1) THEN OptFrom(a, j + 1) ELSE j
\* upper_bound / lower_bound on the sorted sink positions (0-based results as in the code)
UpperBound(x) == Cardinality({ k \in 1..NS : v[k] <= x })
LowerBound(x) == Cardinality({ k \in 1..NS : v[k] < x })
\* pushNewSourceEvents(i) (0-based sink indices j = b .. e-1 of the code are sinks j+1 here)
RECURSIVE SrcEvents(_, _, _, _)
SrcEvents(q, a, j, e) ==   \* j, e 0-based
    IF j >= e THEN q
    ELSE SrcEvents(EvAdd(q, DD(j + 1) - SS(a - 1), Delta(a - 1, j + 1)), a, j + 1, e)
NewSourceEvents(q, a, occ) ==
    IF a = 1 THEN q
    ELSE LET b == Max2(UpperBound(u[a - 1]) - 1, 0)
             e == Min2(LowerBound(u[a]), occ - 1) IN
         SrcEvents(q, a, b, e)
\* pushNewSinkEvents(i, j): events for the sinks lastOcc .. j-1, then lastOcc = j
RECURSIVE SinkEvents(_, _, _, _, _)
SinkEvents(q, a, l, j, lp) ==
    IF l >= j THEN q
    ELSE SinkEvents(EvAdd(q, Min2(DD(l) - SS(a - 1), lp), Cost(a, l) - Cost(a, l + 1)), a, l + 1, j, lp)

\* push(i) up to the loop
Push == /\ pc = "push" /\ i <= NR
        /\ LET o == OptFrom(i, optSink)
               q1 == NewSourceEvents(ev, i, lastOcc)
               lp == Max2(lastPos, DD(o - 1) - SS(i - 1))
               q2 == IF o > lastOcc THEN SinkEvents(q1, i, lastOcc, o, lp) ELSE q1 IN
           /\ optSink' = o /\ lastPos' = lp /\ ev' = q2
           /\ lastOcc' = IF o > lastOcc THEN o ELSE lastOcc
        /\ pc' = "loop" /\ UNCHANGED <<u, v, s, d, i, p>>

LoopCond == lastPos > DD(lastOcc) - SS(i)
\* pushToLastSink(i)
ToLastSink == LET minPos == Max2(DD(lastOcc) - SS(i), 0)
                  slope == SlopeAt(ev, lastPos)
                  q1 == AfterGetSlope(ev, lastPos, TRUE)
                  np == IF DOMAIN q1 = {} THEN minPos ELSE Max2(minPos, EvTop(q1)) IN
              /\ lastPos' = np /\ ev' = EvAdd(q1, np, slope) /\ UNCHANGED lastOcc
\* pushToNewSink(i)
ToNewSink == /\ ev' = SinkEvents(ev, i, lastOcc, lastOcc + 1, lastPos)
             /\ lastOcc' = lastOcc + 1 /\ UNCHANGED lastPos
\* pushToNewSink after getSlope(false) has merged the events at lastPosition
ToNewSinkMerged == /\ ev' = SinkEvents(AfterGetSlope(ev, lastPos, FALSE), i, lastOcc, lastOcc + 1, lastPos)
                   /\ lastOcc' = lastOcc + 1 /\ UNCHANGED lastPos
ToLastSinkMerged == LET q0 == AfterGetSlope(ev, lastPos, FALSE)
                        minPos == Max2(DD(lastOcc) - SS(i), 0)
                        slope == SlopeAt(q0, lastPos)
                        q1 == AfterGetSlope(q0, lastPos, TRUE)
                        np == IF DOMAIN q1 = {} THEN minPos ELSE Max2(minPos, EvTop(q1)) IN
                    /\ lastPos' = np /\ ev' = EvAdd(q1, np, slope) /\ UNCHANGED lastOcc
PushOnce == /\ pc = "loop" /\ LoopCond
            /\ IF lastOcc = NS THEN ToLastSink
               ELSE IF lastPos = 0 THEN ToNewSink
               ELSE LET right == Cost(i, lastOcc + 1)
                        left == SlopeAt(ev, lastPos) + Cost(i, lastOcc) IN
                    IF left >= right THEN ToNewSinkMerged ELSE ToLastSinkMerged
            /\ UNCHANGED <<u, v, s, d, i, p, optSink, pc>>
EndPush == /\ pc = "loop" /\ ~LoopCond
           /\ p' = Append(p, lastPos) /\ i' = i + 1
           /\ pc' = IF i = NR THEN "flush" ELSE "push"
           /\ UNCHANGED <<u, v, s, d, ev, lastPos, lastOcc, optSink>>
\* flushPositions: running minimum from the right, starting at totalDemand - totalSupply
RECURSIVE Flushed(_, _, _)
Flushed(q, k, m) == IF k = 0 THEN q ELSE LET m2 == Min2(q[k], m) IN Flushed([q EXCEPT ![k] = m2], k - 1, m2)
Flush == /\ pc = "flush" /\ p' = Flushed(p, NR, DD(NS) - SS(NR)) /\ pc' = "done"
         /\ UNCHANGED <<u, v, s, d, i, ev, lastPos, lastOcc, optSink>>
Next == Push \/ PushOnce \/ EndPush \/ Flush
Spec == Init /\ [][Next]_vars /\ WF_vars(Next)

---------------------------------------------------------------------------
\* computeSolution: overlap of source a (SS(a-1)+p[a] .. SS(a)+p[a]) with sink b (DD(b-1) .. DD(b))
Overlap(a, b) == LET lo == Max2(SS(a - 1) + p[a], DD(b - 1)) hi == Min2(SS(a) + p[a], DD(b)) IN IF hi > lo THEN hi - lo ELSE 0
Plan == [b \in 1..NS |-> [a \in 1..NR |-> Overlap(a, b)]]
CostM == [b \in 1..NS |-> [a \in 1..NR |-> Cost(a, b)]]
\* computeAssignment: the sink holding the middle s[a] \div 2 of the source
AssignOf(a) == LET mid == p[a] + SS(a - 1) + (s[a] \div 2) IN
               CHOOSE b \in 1..NS : DD(b - 1) <= mid /\ (mid < DD(b) \/ b = NS)
Assign == [a \in 1..NR |-> AssignOf(a)]

TypeOK == /\ pc \in {"push", "loop", "flush", "done"} /\ lastOcc \in 1..NS /\ optSink \in 1..NS /\ lastPos >= 0
          /\ \A x \in DOMAIN ev : x > 0
\* positions are on the demand line and, once flushed, leave room for the following sources
PositionsOK == pc = "done" => /\ \A a \in 1..NR : p[a] >= 0 /\ SS(a) + p[a] <= DD(NS)
                              /\ \A a \in 1..(NR - 1) : p[a] <= p[a + 1]
PlanFeasible == pc = "done" => TFeasible(d, s, Plan)
PlanOptimal == pc = "done" => NoNegCycle(d, s, CostM, Plan)
\* the middle of every source lies in a sink (the walk of computeAssignment stays inside D)
AssignInRange == pc = "done" => \A a \in 1..NR : p[a] + SS(a - 1) + (s[a] \div 2) < DD(NS)
AssignContract == pc = "done" => Assign1dOK(u, v, s, d, Plan, Assign)
Terminates == <>(pc = "done")
\* the queue never holds an event to the right of the current position while a source is being pushed
EventsBehind == pc = "loop" => \A x \in DOMAIN ev : x <= lastPos
Emit == pc # "done" \/ PrintT(ToJson([k |-> "t1dimpl", u |-> u, v |-> v, s |-> s, d |-> d, p |-> p,
                                      plan |-> Plan, assign |-> [a \in 1..NR |-> Assign[a] - 1]]))
=============================================================================
