------------------------------ MODULE TraceAlgo ------------------------------
(***************************************************************************)
(* Code -> spec binding for the self-contained algorithms: each event is   *)
(* one recorded execution (inputs + outputs) of a real object, judged by   *)
(* the contract operators of the specification.  Failures are printed as   *)
(* JSON, as in TraceCircuit.                                               *)
(***************************************************************************)
EXTENDS Integers, Sequences, FiniteSets, TLC, Json, IOUtils, BigNat, RowOps, TransportOps, DensityOps, NetQuadratic, DetailedOps

VARIABLES l, fails
T == ndJsonDeserialize(IOEnv.TRACE)
Ev == T[l]
Is(e) == l <= Len(T) /\ T[l].e = e
F(p, why, sig) == [p |-> p, why |-> why, sig |-> sig]

Init == l = 1 /\ fails = {}

---------------------------------------------------------------------------
(* C12: a history of insertions into a real RowLegalizer at arbitrary coordinates *)
RowHistFails ==
    LET cs == Ev.cells pl == Ev.pl n == Len(Ev.cells) IN
    (IF Feasible(cs, pl, Ev.lo, Ev.hi) THEN {} ELSE {F("C12", <<"order/overlap/containment">>, "row-feasible")}) \cup
    (IF Feasible(cs, pl, Ev.lo, Ev.hi) /\ ~SubgradOptimal(cs, pl, Ev.lo, Ev.hi) THEN {F("C12", <<"placement not optimal">>, "row-optimal")} ELSE {}) \cup
    (IF \E i \in 1..n : ~Eq(Ev.costs[i], Ev.preds[i]) THEN {F("C12", <<"predicted cost differs from reported cost">>, "row-predict")} ELSE {}) \cup
    (IF Len(pl) = n /\ ~Eq(SumBig(Ev.costs, n), SumBig([i \in 1..n |-> Mul(cs[i][1], Abs(pl[i] - cs[i][2]))], n))
     THEN {F("C12", <<"reported costs do not sum to the cost of the placement">>, "cost-sum")} ELSE {}) \cup
    (IF Ev.pure THEN {} ELSE {F("C12", <<"a cost query changed the state">>, "row-query")})
RowHist == Is("RowHist") /\ fails' = RowHistFails /\ l' = l + 1

---------------------------------------------------------------------------
(* C13: a transportation problem solved by the real TransportationProblem *)
TransportFails ==
    LET cap == Ev.cap dem == Ev.dem cost == Ev.cost a == Ev.alloc IN
    \* quantities were multiplied by 2^qscale and are logged in that unit; a plan that is not a whole number of units cannot
    \* be judged with 32-bit integers: no verdict (none of the solver's plans is like that)
    (IF Ev.capKept THEN {} ELSE {F("C13", <<"the capacity normalisation changed capacities that already sufficed">>, "t-capacity-inflated")}) \cup
    (IF Ev.capExcess /\ ~Ev.capShort THEN {F("C13", <<"the capacity normalisation did not bring the total capacity to exactly the total demand">>, "t-capacity-total")} ELSE {}) \cup
    IF Ev.capShort THEN {F("C13", <<"the capacity normalisation left the total capacity short of the total demand">>, "t-capacity-short")} ELSE
    IF ~Ev.units THEN {F("note", <<"plan not in whole units of 2^qscale", Ev.qscale>>, "t-not-in-units")} ELSE
    (IF TFeasible(cap, dem, a) THEN {} ELSE {F("C13", <<"plan infeasible">>, "t-feasible")}) \cup
    (IF TFeasible(cap, dem, a) /\ ~CertOKSplit(cap, dem, cost, a, Ev.poth, Ev.potl) THEN {F("C13", <<"plan not of minimum cost">>, "t-optimal")} ELSE {}) \cup
    (IF AssignOK(a, Ev.assign) THEN {} ELSE {F("C13", <<"assignment is not an arg-max of the allocations">>, "t-assign")})
Transport == Is("Transport") /\ fails' = TransportFails /\ l' = l + 1

---------------------------------------------------------------------------
(* C14: one-dimensional transportation: plan (as C13 with cost |u - v|) and rounded assignment *)
T1dFails ==
    LET u == Ev.u v == Ev.v s == Ev.s d == Ev.d a == Ev.alloc
        cost == [i \in 1..Len(v) |-> [j \in 1..Len(u) |-> Abs(u[j] - v[i])]] IN
    (IF Ev.fate # "ok" THEN {F("C14", <<"abnormal end", Ev.fate>>, "t1d-fate")} ELSE
     IF ~Ev.units THEN {F("note", <<"quantities not in whole units", Ev.qscale>>, "t1d-not-in-units")} ELSE
     (IF TFeasible(d, s, a) THEN {} ELSE {F("C14", <<"plan infeasible">>, "t1d-feasible")}) \cup
     (IF TFeasible(d, s, a) /\ ~CertOKSplit(d, s, cost, a, Ev.poth, Ev.potl) THEN {F("C14", <<"plan not of minimum cost">>, "t1d-optimal")} ELSE {}) \cup
     (IF Assign1dOK(u, v, s, d, a, Ev.assign) THEN {} ELSE {F("C14", <<"rounded assignment", Ev.assign>>, "t1d-assign")}))
T1d == Is("T1d") /\ fails' = T1dFails /\ l' = l + 1

(* C16: state of the hierarchical density placement after a public operation *)
HierFails ==
    \* the executed instance is the logged one magnified by 2^kshift; a state that is not a whole number of units cannot be judged
    IF ~Ev.units THEN {F("note", <<"state not in whole units of 2^kshift", Ev.kshift>>, "hier-not-in-units")} ELSE
    (IF Tiling(Ev.limX, Ev.limY, Ev.regions) THEN {} ELSE {F("C16", <<"bin limits do not tile the placement area", Ev.limX, Ev.limY>>, "tiling")}) \cup
    (IF CapacityExact(Ev.bins, Ev.limX, Ev.limY, Ev.regions) THEN {} ELSE {F("C16", <<"bin capacity differs from the free area inside the bin", Ev.op>>, "capacity")}) \cup
    (IF DSum([k \in 1..Len(Ev.bins) |-> Ev.bins[k].cap], Len(Ev.bins)) = Ev.totalCap
        /\ Ev.totalCap = FreeAreaIn(Ev.regions, AreaOf(Ev.regions).x0, AreaOf(Ev.regions).x1, AreaOf(Ev.regions).y0, AreaOf(Ev.regions).y1)
     THEN {} ELSE {F("C16", <<"capacities of this view do not add up to the free area", Ev.op>>, "aggregate")}) \cup
    \* the demands the object holds are those it was built with (a refused update of the demands changes nothing)
    (IF Ev.objDemands = Ev.demands THEN {} ELSE {F("C16", <<"cell demands held by the placement differ from those it was given", Ev.op, Ev.step>>, "demands")}) \cup
    (IF Partition(Ev.bins, Ev.demands, Ev.cells) THEN {} ELSE {F("C16", <<"cells are not partitioned by the bins", Ev.op, Ev.step>>, "partition")}) \cup
    (IF CoordInside(Ev.bins, Ev.demands, Ev.cells, Ev.limX, Ev.limY) THEN {} ELSE {F("C16", <<"reported coordinate outside the bin", Ev.op>>, "coord")})
Hier == Is("Hier") /\ fails' = HierFails /\ l' = l + 1

(* C17: the continuous solver honours real-valued weights *)
NetSolveFails ==
    (IF Ev.finite THEN {} ELSE {F("C17", <<"non-finite solution">>, "net-finite")}) \cup
    (IF Ev.finite /\ ~Stationary(Ev.x0, EffectiveNets(Ev.nets, Ev.via), Ev.n, IF Ev.tol >= 6 THEN 2 ELSE 16)
     THEN {F("C17", <<"initial star solution is not the weighted least-squares optimum", Ev.x0>>, "net-optimum")} ELSE {})
NetSolve == Is("NetSolve") /\ fails' = NetSolveFails /\ l' = l + 1
\* the net list held by the model, whichever public path built it, carries every pin and the real-valued weight of every net
NetBuildFails ==
    (IF BuiltAs(Ev.built, Ev.nets, Ev.via, 1) THEN {} ELSE {F("C17", <<"the model built from the net list differs from it (pins or weights)", Ev.via, Ev.built>>, "net-build")}) \cup
    (IF BuiltAs(Ev.built8, Ev.nets, Ev.via, 8) THEN {} ELSE {F("C17", <<"the model built with all weights divided by 8 does not carry them", Ev.via, Ev.built8>>, "net-build")})
NetBuild == Is("NetBuild") /\ fails' = NetBuildFails /\ l' = l + 1
\* scaling all weights and penalty strengths by a common factor leaves the solution unchanged: bitwise for powers of
\* two, within tolerance (positions x 128) otherwise
SeqClose(a, b, tol) == Len(a) = Len(b) /\ \A i \in 1..Len(a) : Abs(a[i] - b[i]) <= tol
NetScaleFails ==
    IF Ev.dyadic
    THEN (IF Ev.b0 = Ev.s0 /\ Ev.b1 = Ev.s1 /\ Ev.b2 = Ev.s2 THEN {}
          ELSE {F("C17", <<"solution changed when all weights were scaled by 2^k", Ev.k>>, "net-scale-dyadic")})
    \* the linear initial star model always; the later (re-weighted) steps only for the clique model, which is continuous in
    \* the current placement (bound-to-bound and star models pick extreme pins: a tie broken differently is not an error)
    ELSE (IF SeqClose(Ev.b0, Ev.s0, 8) /\ (Ev.model # 2 \/ (SeqClose(Ev.b1, Ev.s1, 16) /\ SeqClose(Ev.b2, Ev.s2, 16))) THEN {}
          ELSE {F("C17", <<"solution changed beyond tolerance when all weights were scaled", Ev.k>>, "net-scale")})
NetScale == Is("NetScale") /\ fails' = NetScaleFails /\ l' = l + 1
\* penalty strengths are honoured also for a cell exactly on its target (positions x 128; the targets differ by 1/64 = 2 units)
NetTie == /\ Is("NetTie")
          /\ fails' = (IF SeqClose(Ev.yEq, Ev.yNear, 24) THEN {}
                       ELSE {F("C17", <<"a cell exactly on its penalty target is not pulled like one next to it", Ev.yEq, Ev.yNear>>, "net-penalty-tie")})
          /\ l' = l + 1

(* C02 / C04 / C05: one swap or insert applied to a real DetailedPlacement built in a state of the DetailedRows model *)
StOf(len, cs) == [len |-> len, repaired |-> TRUE, w |-> [c \in 1..Len(cs) |-> cs[c].w], pol |-> [c \in 1..Len(cs) |-> cs[c].pol],
                  seg |-> [c \in 1..Len(cs) |-> cs[c].seg], x |-> [c \in 1..Len(cs) |-> cs[c].x], o |-> [c \in 1..Len(cs) |-> cs[c].o]]
DetResFails ==
    LET from == StOf(Ev.len, Ev.from)
        specRes == IF Ev.act = "swap" THEN SwapRes(from, Ev.args[1], Ev.args[2]) ELSE InsertRes(from, Ev.args[1], Ev.args[2], Ev.args[3])
        moved == IF Ev.act = "swap" THEN {Ev.args[1], Ev.args[2]} ELSE {Ev.args[1]} IN
    IF ~Ev.canReal
    THEN {F("note", <<"guard differs from the transcription", Ev.act, Ev.args>>, "impl-guard-diff")}
    ELSE LET res == StOf(Ev.len, Ev.res) IN
         \* contract (decisive): a move the real guard allows does not throw and leaves a legal, consistent, correctly oriented state
         (IF Ev.threw # "" THEN {F("C02", <<"the guard answered yes but the move threw", Ev.act, Ev.args, Ev.threw>>, "det-throw")} ELSE {}) \cup
         (IF Ev.threw = "" /\ ~LegalRows(res) THEN {F("C02", <<"move leaves an illegal row structure", Ev.act, Ev.args>>, "det-illegal")} ELSE {}) \cup
         (IF Ev.threw = "" /\ Ev.check # "" THEN {F("C02", <<"row lists inconsistent after the move", Ev.check>>, "det-inconsistent")} ELSE {}) \cup
         (IF Ev.threw = "" /\ ~OrientOKRows(res) THEN {F("C04", <<"move leaves a cell with an orientation its polarity forbids", Ev.act, Ev.args>>, "det-orient")} ELSE {}) \cup
         (IF Ev.threw = "" /\ (res.w # from.w \/ \E c \in CellsOf(from) \ moved : res.x[c] # from.x[c] \/ res.seg[c] # from.seg[c] \/ res.o[c] # from.o[c])
          THEN {F("C02", <<"move changed a cell it does not concern", Ev.act, Ev.args>>, "det-frame")} ELSE {}) \cup
         \* implementation-shaped layer (informational): guard and target positions as transcribed
         {F("note", <<"impl">>, IF Ev.canSpec /\ Ev.threw = "" /\ res = specRes THEN "impl-same" ELSE "impl-diff")}
DetRes == Is("DetRes") /\ fails' = DetResFails /\ l' = l + 1

AlgoBegin == Is("AlgoBegin") /\ fails' = {} /\ l' = l + 1
\* an execution that died: memory error, abort or hang inside the algorithm
BadFate == /\ (Is("Abort") \/ Is("Sanitizer") \/ Is("Timeout"))
           /\ fails' = {F(IF Ev.scen = "t1d" THEN "C14" ELSE IF Ev.scen = "transport" THEN "C13" ELSE IF Ev.scen = "density" THEN "C16" ELSE IF Ev.scen = "netw" THEN "C17" ELSE "C12",
                          <<Ev.e, Ev.stderr>>, IF Ev.e = "Timeout" THEN "timeout-" \o Ev.hang ELSE Ev.scen \o "-fate")}
           /\ l' = l + 1

Next == NetTie \/ NetBuild \/ DetRes \/ RowHist \/ Transport \/ T1d \/ Hier \/ NetSolve \/ NetScale \/ AlgoBegin \/ BadFate
Spec == Init /\ [][Next]_<<l, fails>>

RECURSIVE SeqOfSet(_)
SeqOfSet(S) == IF S = {} THEN <<>> ELSE LET e == CHOOSE e \in S : TRUE IN <<e>> \o SeqOfSet(S \ {e})
Report == fails = {} \/ PrintT(ToJson([run |-> IF "run" \in DOMAIN T[l - 1] THEN T[l - 1].run ELSE l - 1, line |-> l - 1, ev |-> T[l - 1].e, fails |-> SeqOfSet(fails)]))
Short == [l |-> l]
Post == LET dd == TLCGet("stats").diameter - 1 IN
        IF dd = Len(T) THEN TRUE
        ELSE PrintT(ToJson([rejected |-> TRUE, line |-> dd + 1, ev |-> T[dd + 1].e])) /\ FALSE
=============================================================================
