---------------------------- MODULE TraceCircuit ----------------------------
(***************************************************************************)
(* Code -> spec binding for the placement entry points.  Reads an ndjson   *)
(* trace recorded from the real library (harness/record.cpp,               *)
(* harness/record_proto.cpp) and replays it against the placement          *)
(* contract: the protocol state (which object is inside which call, what   *)
(* it looked like at entry, what legalization exposed first, the last      *)
(* lower/upper bound placements) is maintained by the actions below, and   *)
(* for every event the contract predicates of Geometry/Orient/PlaceAPI are *)
(* evaluated by TLC.  A predicate that does not hold is recorded in        *)
(* `fails' as [p |-> property id, why, sig (signature for the known-       *)
(* findings file)] and printed as JSON; the run continues so that one      *)
(* rejection does not hide later ones.  An event for which no action is    *)
(* enabled (protocol desynchronisation) stops TLC: NotAccepted then holds  *)
(* to the end and the runner reports a framework error.                    *)
(***************************************************************************)
EXTENDS Integers, Sequences, FiniteSets, TLC, Json, IOUtils, Geometry, PlaceAPI

VARIABLES l,       \* next trace line
          run,     \* current run id
          scen,    \* scenario name of the run
          params,  \* parameter summary of the run
          base,    \* circuit at Reset / after the last successful structural setter
          objs,    \* obj -> last observed circuit
          call,    \* the call in progress (or idle)
          hist,    \* obj -> [stage -> outcome record of the last completed call of that stage]
          expect,  \* "" or "reject": the harness announced a call with parameters the check must reject
          fails    \* contract failures detected at the last consumed event
vars == <<l, run, scen, params, base, objs, call, hist, expect, fails>>

T == ndJsonDeserialize(IOEnv.TRACE)
Ev == T[l]
Is(e) == l <= Len(T) /\ T[l].e = e

ObjNames == {"A", "B", "C", "D", "E", "F", "G", "H"}
NoCirc == [cells |-> <<>>, nets |-> <<>>, rows |-> <<>>]
Idle == [active |-> FALSE, obj |-> "", stage |-> "", entry |-> NoCirc, ncb |-> 0, firstDet |-> NoCirc,
         hasDet |-> FALSE, lastDet |-> NoCirc, lastWl |-> 0, lastLB |-> NoCirc, lastUB |-> NoCirc, hasLB |-> FALSE, hasUB |-> FALSE,
         steps |-> <<>>, cb |-> FALSE, thrower |-> "none", inflight |-> 0, solves |-> 0, lastModel |-> -1, tried |-> FALSE]
NoHist == [s \in {"global", "legalize", "detailed"} |-> [done |-> FALSE, ok |-> FALSE, own |-> FALSE, entry |-> NoCirc, result |-> NoCirc]]

F(p, why, sig) == [p |-> p, why |-> why, sig |-> sig]

Init == /\ l = 1 /\ run = -1 /\ scen = "" /\ params = <<>> /\ base = NoCirc
        /\ objs = [o \in ObjNames |-> NoCirc] /\ call = Idle
        /\ hist = [o \in ObjNames |-> NoHist] /\ expect = "" /\ fails = {}

---------------------------------------------------------------------------
(* Per-event contract evaluation *)

\* cells that detailed placement does not optimise: movable and more than one row high
Ignored(c) == { i \in Movable(c) : PH(c.cells[i]) # RowH(c) }
SamePlace(a, b, S) == \A i \in S : a.cells[i].x = b.cells[i].x /\ a.cells[i].y = b.cells[i].y /\ a.cells[i].o = b.cells[i].o
\* "already legal" includes the row polarity: every polarised movable cell sits on a row its polarity allows
PolarityRowsAllowed(c) == \A i \in Movable(c) : c.cells[i].p = "ANY" \/
                             \E ro \in RowOrientsAt(c, c.cells[i]) : CellOrientationInRow(c.cells[i].p, ro) # "INVALID"
AllRowHigh(c) == \A i \in Movable(c) : PH(c.cells[i]) = RowH(c)
Positions(c) == [i \in CellIds(c) |-> <<c.cells[i].x, c.cells[i].y>>]
Placement(c) == [i \in CellIds(c) |-> <<c.cells[i].x, c.cells[i].y, c.cells[i].o>>]

FrameFails(c, glob) ==
    IF (IF glob THEN FrameGlobal(base, c) ELSE Frame(base, c)) THEN {}
    ELSE {F("C03", <<"frame", FrameDiff(base, c)>>, "frame")}

WlFails(c) == IF "wl" \in DOMAIN Ev /\ Ev.wl # Hpwl(c) THEN {F("C09", <<"hpwl", Ev.wl, Hpwl(c)>>, "hpwl")} ELSE {}

LegalFails(p, c) ==
    IF Legal(c) THEN {}
    ELSE {F(p, <<"illegal", IllegalCells(c), OverlapPairs(c)>>, LegalSignature(c))}

OrientFails(c0, c) ==
    IF OrientOK(c0, c) THEN {}
    ELSE {F("C04", <<"orientation", BadOrientCells(c0, c)>>, OrientSignature(c0, c))}

IsFinite(c) == Finite(c, 1073741824)
FiniteFails(c) == IF IsFinite(c) THEN {} ELSE {F("C06", <<"non-finite or overflowed coordinate exposed">>,
                                                 IF FloatingNetlist(c) THEN "nan-floating-netlist" ELSE "nonfinite")}

AreaFails(c) ==
    LET bad == { i \in Movable(c) : ~CentreInArea(c, c.cells[i], 2) } IN
    IF bad = {} THEN {}
    ELSE {F("C06", <<"outside area", bad>>,
            IF \A i \in bad : c.cells[i].w * c.cells[i].h = 0 THEN "zero-area-cell-at-origin" ELSE "outside")}

\* blend: |1000 final - ((1000-B) LB + B UB)| <= 1000 * tol, per coordinate (small coordinates only: 32-bit ints)
BlendOK(fin, lb, ub, B, tol) ==
    \A i \in Movable(fin) :
       LET small(v) == v >= -400000 /\ v <= 400000 IN   \* no Abs: an exposed INT_MIN must not overflow the check itself
       (small(fin.cells[i].x) /\ small(lb.cells[i].x) /\ small(ub.cells[i].x) /\
        small(fin.cells[i].y) /\ small(lb.cells[i].y) /\ small(ub.cells[i].y)) =>
       /\ Abs(1000 * fin.cells[i].x - ((1000 - B) * lb.cells[i].x + B * ub.cells[i].x)) <= 1000 * tol
       /\ Abs(1000 * fin.cells[i].y - ((1000 - B) * lb.cells[i].y + B * ub.cells[i].y)) <= 1000 * tol

\* the legalization-only reference run on a sibling object with the same entry circuit
RefLegal(o) ==
    LET qs == { q \in ObjNames : hist[q]["legalize"].done /\ hist[q]["legalize"].entry = call.entry } IN
    IF qs = {} THEN [ok |-> FALSE, result |-> NoCirc]
    ELSE LET q == CHOOSE q \in qs : TRUE IN [ok |-> hist[q]["legalize"].ok, result |-> hist[q]["legalize"].result]

InflightFails == IF call.inflight # 0 THEN {F("C08", <<"a solve is still running at a callback / end of call", call.inflight>>, "solve-open")} ELSE {}
CbFails(c) ==
    LET st == call.stage step == Ev.step IN
    IF ~IsFinite(c) THEN FiniteFails(c) ELSE
    InflightFails \cup FrameFails(c, st = "global") \cup WlFails(c) \cup FiniteFails(c) \cup
    (IF st = "legalize" /\ step = "Detailed" THEN LegalFails("C01", c) \cup OrientFails(call.entry, c) ELSE {}) \cup
    (IF st = "detailed" /\ step = "Detailed"
     THEN LegalFails(IF call.hasDet THEN "C02" ELSE "C01", c) \cup OrientFails(call.entry, c) \cup
          (IF call.hasDet /\ Ev.wl > call.lastWl
           THEN {F("C05", <<"wirelength increased at callback", call.lastWl, Ev.wl>>, WlSignature(call.firstDet, call.lastDet, c))} ELSE {}) \cup
          (IF call.hasDet /\ ~SamePlace(call.firstDet, c, Ignored(c))
           THEN {F("C02", <<"multi-row cell moved by detailed placement">>, "ignored-moved")} ELSE {})
     ELSE {}) \cup
    (IF st = "global" /\ step = "UpperBound" THEN AreaFails(c) ELSE {}) \cup
    (IF (st = "global" /\ step = "Detailed") \/ (st # "global" /\ step # "Detailed")
     THEN {F("C10", <<"unexpected callback step", st, step>>, "cb-step")} ELSE {})

\* implementation-shaped layer (informational): the first legalization of a LegalizeCases circuit against LegalizeImpl.Result
ImplNote(c, returned) ==
    IF call.stage = "legalize" /\ call.entry = base /\ "impl" \in DOMAIN params
    THEN {F("note", <<"impl">>, IF params.impl.ok = returned /\ (~returned \/ [i \in 1..Len(c.cells) |-> <<c.cells[i].x, c.cells[i].y, c.cells[i].o>>] = params.impl.pos)
                                 THEN "impl-same" ELSE "impl-diff")}
    ELSE {}
RetFails(c) ==
    LET st == call.stage o == call.obj IN
    IF ~IsFinite(c) \/ ~IsFinite(call.entry) THEN FiniteFails(c) ELSE
    ImplNote(c, TRUE) \cup
    InflightFails \cup FrameFails(c, st = "global") \cup WlFails(c) \cup FiniteFails(c) \cup
    (IF st = "legalize"
     THEN LegalFails("C01", c) \cup OrientFails(call.entry, c) \cup
          (IF Legal(call.entry) /\ AllRowHigh(call.entry) /\ PolarityRowsAllowed(call.entry)
           THEN (IF Positions(c) # Positions(call.entry) \/
                    \E i \in Movable(c) : c.cells[i].p = "ANY" /\ c.cells[i].o # call.entry.cells[i].o
                 THEN {F("C11", <<"legal single-row placement moved (position, or orientation of an unrestricted cell)">>, C11Signature(params))}
                 ELSE {F("note", <<"C11 antecedent held">>, "c11-antecedent")})
           ELSE {}) \cup
          (IF TrivialFit(call.entry) THEN {F("note", <<"success was trivial and legalization returned">>, "c01-trivial-antecedent")} ELSE {})
     ELSE {}) \cup
    (IF st = "detailed"
     THEN LegalFails("C02", c) \cup OrientFails(call.entry, c) \cup
          (LET ref == IF call.hasDet THEN call.firstDet
                      ELSE IF RefLegal(o).ok THEN RefLegal(o).result ELSE NoCirc
           IN IF ref = NoCirc THEN {}
              ELSE (IF Hpwl(c) > Hpwl(ref)
                    THEN {F("C05", <<"wirelength above legalized placement", Hpwl(ref), Hpwl(c)>>, WlSignature(ref, ref, c))} ELSE {}) \cup
                   (IF ~SamePlace(ref, c, Ignored(c))
                    THEN {F("C02", <<"multi-row cell moved by detailed placement">>, "ignored-moved")} ELSE {}))
     ELSE {}) \cup
    (IF st = "global" /\ call.hasLB /\ call.hasUB /\ ~BlendOK(c, call.lastLB, call.lastUB, params.blend, 3)
     THEN {F("C06", <<"returned placement is not the blend">>, "blend")} ELSE {}) \cup
    \* determinism across objects (C08): same stage from the same entry circuit must give the same result
    UNION { IF hist[q][st].done /\ hist[q][st].ok /\ hist[q][st].entry = call.entry /\ Placement(hist[q][st].result) # Placement(c)
            THEN {F("C08", <<"same input, different result", q, o>>, "nondeterministic")} ELSE {} : q \in ObjNames } \cup
    \* ... and the same outcome: this call returned, an earlier call of the same stage on the same input failed by itself
    UNION { IF hist[q][st].done /\ ~hist[q][st].ok /\ hist[q][st].own /\ hist[q][st].entry = call.entry
            THEN {F("C08", <<"same input: one call returned, the other failed", q, o>>, "nondeterministic-outcome")} ELSE {} : q \in ObjNames }

ThrowFails(c) ==
    LET st == call.stage o == call.obj IN
    \* C08: the call failed by itself (the harness callback did not throw) although the same stage returned on the same input
    (IF call.thrower = "none" /\ expect # "reject"
     THEN UNION { IF hist[q][st].done /\ hist[q][st].ok /\ hist[q][st].entry = call.entry
                  THEN {F("C08", <<"same input: one call returned, the other failed", q, o, Ev.what>>, "nondeterministic-outcome")} ELSE {} : q \in ObjNames }
     ELSE {}) \cup
    IF ~IsFinite(c) \/ ~IsFinite(call.entry) THEN FiniteFails(c) ELSE
    ImplNote(c, FALSE) \cup FrameFails(c, st = "global") \cup
    \* C10 "refused ... and changes nothing": modifications were attempted (and refused) inside a callback that returned normally,
    \* yet the call then failed by itself
    (IF call.thrower = "none" /\ call.tried /\ expect # "reject"
     THEN {F("C10", <<"the call failed after a callback merely attempted refused modifications", Ev.what>>, "refused-changed-call")} ELSE {}) \cup
    (IF call.thrower # "none" THEN {}   \* the harness's own callback threw: covered by the protocol checks (C10)
     ELSE IF expect = "reject"
     THEN (IF call.ncb = 0 /\ Placement(c) = Placement(call.entry) THEN {}
           ELSE {F("C19", <<"rejected parameters: work was done before the rejection", call.ncb>>, "reject-late")})
     ELSE
      (IF st = "legalize"
       THEN (IF Placement(c) # Placement(call.entry)
             THEN {F("C10", <<"failed legalization changed the placement">>, "partial")} ELSE {}) \cup
            (IF TrivialFit(call.entry) THEN {F("C01", <<"legalization failed although success is trivial", Ev.what>>, "trivial-throw")} ELSE {})
       ELSE {}) \cup
      (IF st = "detailed"
       THEN (IF call.hasDet \/ RefLegal(o).ok
             THEN {F("C02", <<"detailed placement failed although legalization succeeds", Ev.what>>, ThrowSignature(call.entry, Ev.what))}
             ELSE IF TrivialFit(call.entry) THEN {F("C01", <<"legalization failed although success is trivial", Ev.what>>, "trivial-throw")} ELSE {})
       ELSE {}) \cup
      (IF st = "global" THEN {F("C06", <<"global placement raised", Ev.what>>, "global-throw")} ELSE {}))

---------------------------------------------------------------------------
(* Actions: one per event kind *)

Reset == /\ Is("Reset")
         /\ run' = Ev.run /\ scen' = Ev.scen /\ params' = Ev.params /\ base' = Ev.circ
         /\ objs' = [o \in ObjNames |-> Ev.circ] /\ call' = Idle /\ hist' = [o \in ObjNames |-> NoHist]
         /\ fails' = WlFails(Ev.circ) /\ expect' = ""
         /\ l' = l + 1

\* the harness replaced the circuit between calls (a directly constructed placement): new reference for the frame
Rebase == /\ Is("Rebase") /\ ~call.active
          /\ base' = Ev.circ /\ objs' = [o \in ObjNames |-> Ev.circ] /\ hist' = [o \in ObjNames |-> NoHist]
          /\ fails' = WlFails(Ev.circ)
          /\ l' = l + 1 /\ UNCHANGED <<run, scen, params, call, expect>>

Begin == /\ Is("Begin") /\ ~call.active
         /\ call' = [Idle EXCEPT !.active = TRUE, !.obj = Ev.obj, !.stage = Ev.stage, !.entry = objs[Ev.obj], !.cb = Ev.cb]
         /\ fails' = {}
         /\ l' = l + 1 /\ UNCHANGED <<run, scen, params, base, objs, hist, expect>>

Cb == /\ Is("Cb") /\ call.active /\ Ev.obj = call.obj
      /\ LET c == Ev.circ step == Ev.step IN
         /\ fails' = CbFails(c)
         /\ objs' = [objs EXCEPT ![call.obj] = c]
         /\ call' = [call EXCEPT !.ncb = @ + 1, !.steps = Append(@, step),
                       !.hasDet = @ \/ step = "Detailed",
                       !.firstDet = IF ~call.hasDet /\ step = "Detailed" THEN c ELSE @,
                       !.lastWl = IF step = "Detailed" THEN Ev.wl ELSE @,
                       !.lastDet = IF step = "Detailed" THEN c ELSE @,
                       !.lastLB = IF step = "LowerBound" THEN c ELSE @, !.hasLB = @ \/ step = "LowerBound",
                       !.lastUB = IF step = "UpperBound" THEN c ELSE @, !.hasUB = @ \/ step = "UpperBound"]
      /\ l' = l + 1 /\ UNCHANGED <<run, scen, params, base, hist, expect>>

\* more callbacks than any callback grammar allows (the harness stops logging them)
CbFlood == /\ Is("CbFlood") /\ call.active
           /\ fails' = {F("C10", <<"more than a thousand callbacks in one call", call.stage>>, "grammar-flood")}
           /\ l' = l + 1 /\ UNCHANGED <<run, scen, params, base, objs, call, hist, expect>>
CbThrow == /\ Is("CbThrow") /\ call.active
           /\ call' = [call EXCEPT !.thrower = "callback"]
           /\ fails' = {}
           /\ l' = l + 1 /\ UNCHANGED <<run, scen, params, base, objs, hist, expect>>

EndReturn == /\ Is("EndReturn") /\ call.active /\ Ev.obj = call.obj
             /\ LET c == Ev.circ IN
                /\ fails' = RetFails(c) \cup
                            (IF call.thrower # "none" THEN {F("C10", <<"call returned although the callback threw">>, "swallowed")} ELSE {}) \cup
                            (IF expect = "reject" THEN {F("C19", <<"a placement call accepted parameters the check must reject">>, "params-accepted")} ELSE {}) \cup
                            (IF scen \in {"proto", "invalid"} THEN {} ELSE GrammarFails(call.stage, call.steps, call.cb, params))
                /\ objs' = [objs EXCEPT ![call.obj] = c]
                /\ hist' = [hist EXCEPT ![call.obj][call.stage] = [done |-> TRUE, ok |-> TRUE, own |-> FALSE, entry |-> call.entry, result |-> c]]
             /\ call' = Idle /\ expect' = ""
             /\ l' = l + 1 /\ UNCHANGED <<run, scen, params, base>>

EndThrow == /\ Is("EndThrow") /\ call.active /\ Ev.obj = call.obj
            /\ LET c == Ev.circ IN
               /\ fails' = ThrowFails(c)
               /\ objs' = [objs EXCEPT ![call.obj] = c]
               /\ hist' = [hist EXCEPT ![call.obj][call.stage] = [done |-> TRUE, ok |-> FALSE, own |-> (call.thrower = "none" /\ expect # "reject"), entry |-> call.entry, result |-> c]]
            /\ call' = Idle /\ expect' = ""
            /\ l' = l + 1 /\ UNCHANGED <<run, scen, params, base>>

\* Fates outside the outcome alphabet of a placement call (C07): abort, sanitizer report, hang.
BadFate == /\ (Is("Abort") \/ Is("Sanitizer") \/ Is("Timeout"))
           /\ fails' = {F(IF Ev.e = "Sanitizer" /\ Ev.kind = "tsan" THEN "C08"
                          ELSE IF scen \in {"invalid", "api"} THEN "C19" ELSE IF scen = "proto" THEN "C10"
                          \* an execution of a scenario that observes one property and dies delivers none of what that property promises
                          ELSE IF scen = "incr" THEN "C09" ELSE IF scen = "free" THEN "C15" ELSE IF scen \in {"expand", "expcase"} THEN "C18"
                          ELSE IF scen = "export" THEN "C20" ELSE IF scen = "grid" THEN "C16" ELSE "C07",
                          <<Ev.e, IF "kind" \in DOMAIN Ev THEN Ev.kind ELSE "", Ev.stderr>>, FateSignature(Ev, base))}
           /\ call' = Idle /\ expect' = ""
           /\ l' = l + 1 /\ UNCHANGED <<run, scen, params, base, objs, hist>>

\* Structural setters between calls and inside callbacks (C10, C19)
Setter == /\ Is("Setter")
          /\ LET busy == call.active
                 c == Ev.circ
                 o == Ev.obj IN
             /\ fails' = SetterFails(busy, Ev.kind, Ev.valid, Ev.outcome, objs[o], c)
             /\ objs' = [objs EXCEPT ![o] = c]
             /\ base' = IF ~busy /\ Ev.outcome = "ok" THEN c ELSE base
             /\ call' = IF busy THEN [call EXCEPT !.tried = TRUE] ELSE call
          /\ l' = l + 1 /\ UNCHANGED <<run, scen, params, hist, expect>>

\* one call of a public mutator of Circuit, with its arguments: the abstract data type decides (object "A" holds the model state)
ApiEv == /\ Is("Api") /\ ~call.active
         /\ fails' = ApiFails(Ev, objs["A"])
         /\ objs' = [objs EXCEPT !["A"] = LET valid == ApiValid(Ev.kind, Ev.arg, objs["A"]) IN
                                          IF valid THEN ApiEffect(Ev.kind, Ev.arg, objs["A"]) ELSE objs["A"]]
         /\ l' = l + 1 /\ UNCHANGED <<run, scen, params, base, call, hist, expect>>

\* C09: value of an incremental one-dimensional wirelength model after an update; the logged circuit carries the
\* updated positions, so the contract is simply "value = from-scratch wirelength along that axis".
Incr == /\ Is("Incr")
        /\ LET c == Ev.circ
               exp == IF Ev.axis = "x" THEN HpwlX(c) ELSE HpwlY(c) IN
           fails' = (IF Ev.val # exp THEN {F("C09", <<"incremental value", Ev.axis, Ev.step, Ev.val, exp>>, "incremental")} ELSE {})
        /\ l' = l + 1 /\ UNCHANGED <<run, scen, params, base, objs, call, hist, expect>>

\* C09 at the far end of the int range: the circuit magnified by K has K times the wirelength (quotients logged, remainders zero)
HpwlScale == /\ Is("HpwlScale")
             /\ LET c == Ev.circ IN
                fails' = (IF Ev.r # 0 \/ Ev.q # Hpwl(c)
                          THEN {F("C09", <<"wirelength of the circuit magnified by K is not K times the wirelength", Ev.K, Ev.q, Ev.r, Hpwl(c)>>, "hpwl-scale")} ELSE {}) \cup
                         (IF Ev.rx # 0 \/ Ev.qx # HpwlX(c) \/ Ev.ry # 0 \/ Ev.qy # HpwlY(c)
                          THEN {F("C09", <<"incremental model of the circuit magnified by K", Ev.K, Ev.qx, HpwlX(c), Ev.qy, HpwlY(c)>>, "hpwl-scale-incr")} ELSE {})
             /\ l' = l + 1 /\ UNCHANGED <<run, scen, params, base, objs, call, hist, expect>>

\* C02 / C04 / C05: one optimiser pass of detailed placement driven directly (after a successful legalization of the object)
PassEv == /\ Is("Pass") /\ ~call.active
          /\ LET o == Ev.obj c == Ev.circ prev == objs[Ev.obj] leg == hist[Ev.obj]["legalize"].result IN
             /\ fails' = IF ~IsFinite(c) THEN FiniteFails(c) ELSE
                            FrameFails(c, FALSE) \cup WlFails(c) \cup LegalFails("C02", c) \cup OrientFails(leg, c) \cup
                            (IF Ev.wl > Hpwl(prev)
                             THEN {F("C05", <<"wirelength increased over an optimiser pass", Ev.op, Ev.a1, Ev.a2, Hpwl(prev), Ev.wl>>, WlSignature(leg, prev, c))} ELSE {}) \cup
                            (IF ~SamePlace(leg, c, Ignored(c)) THEN {F("C02", <<"multi-row cell moved by an optimiser pass", Ev.op>>, "ignored-moved")} ELSE {})
             /\ objs' = [objs EXCEPT ![o] = c]
          /\ l' = l + 1 /\ UNCHANGED <<run, scen, params, base, call, hist, expect>>
PassThrow == /\ Is("PassThrow") /\ ~call.active
             /\ fails' = {F("C02", <<"an optimiser pass failed on a legalized placement", Ev.what>>, "pass-throw")}
             /\ l' = l + 1 /\ UNCHANGED <<run, scen, params, base, objs, call, hist, expect>>

\* C20: export to ISPD/Bookshelf files and re-read with the package's own reader: the identity on cell sizes, fixed flags,
\* positions, orientations, net connectivity, pin offsets, row geometry and row orientation (hence on the wirelength)
Observable(c) == [cells |-> [i \in 1..Len(c.cells) |-> [w |-> c.cells[i].w, h |-> c.cells[i].h, f |-> c.cells[i].f,
                                                         x |-> c.cells[i].x, y |-> c.cells[i].y, o |-> c.cells[i].o]],
                  nets |-> [k \in 1..Len(c.nets) |-> [j \in 1..Len(c.nets[k].pins) |-> c.nets[k].pins[j]]],
                  rows |-> c.rows]
WithDefaults(c) == [cells |-> [i \in 1..Len(c.cells) |-> [w |-> c.cells[i].w, h |-> c.cells[i].h, f |-> c.cells[i].f, ob |-> TRUE, p |-> "ANY",
                                                            x |-> c.cells[i].x, y |-> c.cells[i].y, o |-> c.cells[i].o]],
                    nets |-> [k \in 1..Len(c.nets) |-> [wt |-> 0, pins |-> c.nets[k].pins]], rows |-> c.rows]
RoundTripFails ==
    LET b == Ev.before a == Ev.after IN
    IF Ev.outcome # "ok" THEN {F("C20", <<"the reader rejected the exported files", Ev.outcome>>, "rt-read")}
    ELSE LET ob == Observable(b) oa == Observable(WithDefaults(a))
             what == IF Len(a.cells) # Len(b.cells) THEN "cell count"
                     ELSE IF \E i \in 1..Len(b.cells) : ob.cells[i].w # oa.cells[i].w \/ ob.cells[i].h # oa.cells[i].h THEN "cell sizes"
                     ELSE IF \E i \in 1..Len(b.cells) : ob.cells[i].f # oa.cells[i].f THEN "fixed flags"
                     ELSE IF \E i \in 1..Len(b.cells) : ob.cells[i].x # oa.cells[i].x \/ ob.cells[i].y # oa.cells[i].y THEN "positions"
                     ELSE IF \E i \in 1..Len(b.cells) : ob.cells[i].o # oa.cells[i].o THEN "orientations"
                     ELSE IF Len(a.nets) # Len(b.nets) \/ \E k \in 1..Len(b.nets) : Len(a.nets[k].pins) # Len(b.nets[k].pins) THEN "net connectivity"
                     ELSE IF \E k \in 1..Len(b.nets) : \E j \in 1..Len(b.nets[k].pins) : a.nets[k].pins[j].c # b.nets[k].pins[j].c THEN "net connectivity"
                     ELSE IF ob.nets # oa.nets THEN "pin offsets"
                     ELSE IF Len(a.rows) # Len(b.rows) \/ \E r \in 1..Len(b.rows) : [a.rows[r] EXCEPT !.o = "N"] # [b.rows[r] EXCEPT !.o = "N"] THEN "row geometry"
                     ELSE IF a.rows # b.rows THEN "row orientation"
                     ELSE IF Hpwl(WithDefaults(a)) # Hpwl(b) THEN "wirelength"
                     ELSE "" IN
         IF what = "" THEN {} ELSE {F("C20", <<"export / read-back differs in", what>>, "rt-" \o what)}
RoundTrip == /\ Is("RoundTrip") /\ fails' = RoundTripFails
             /\ l' = l + 1 /\ UNCHANGED <<run, scen, params, base, objs, call, hist, expect>>
ExportEv == /\ Is("Export") /\ fails' = {}
            /\ l' = l + 1 /\ UNCHANGED <<run, scen, params, base, objs, call, hist, expect>>
\* C20: one entry of the Python binding table: the Python name must denote the C++ entity of the same name, which exists
BindEv == /\ Is("Bind")
          /\ fails' = (IF Ev.pyn = Ev.cppn /\ Ev.exists /\ Ev.sameOwner THEN {}
                       ELSE {F("C20", <<"Python name bound to a different C++ entity", Ev.owner, Ev.py, Ev.cppClass, Ev.cpp, "exists", Ev.exists>>, "bind-" \o Ev.owner \o "." \o Ev.py)})
          /\ l' = l + 1 /\ UNCHANGED <<run, scen, params, base, objs, call, hist, expect>>

\* C18: cell expansion.  Real-valued arguments are dyadic: target / cap = p64/64, margin = m2/2 row heights,
\* width cap = cap64/64 of the widest row, factors = f4/4, congestion = c4/4.
MovableArea(c) == SumSeq([i \in 1..NCells(c) |-> IF c.cells[i].f THEN 0 ELSE c.cells[i].w * c.cells[i].h])
AvailArea(c, m2) == SumSeq([r \in 1..Len(c.rows) |->
                        LET S == SegmentsOfRow(c, r) H == c.rows[r].y1 - c.rows[r].y0
                            RECURSIVE Add(_)
                            Add(Q) == IF Q = {} THEN 0 ELSE LET q == CHOOSE q \in Q : TRUE IN
                                        Max2(0, (q[2] - q[1]) - m2 * H) * H + Add(Q \ {q})
                        IN Add(S)])
MaxH(c) == LET hs == { c.cells[i].h : i \in Movable(c) } IN IF hs = {} THEN 0 ELSE SetMax(hs)
SumH(c) == SumSeq([i \in 1..NCells(c) |-> IF c.cells[i].f THEN 0 ELSE c.cells[i].h])
OnlyMovableWidths(b, a) ==
    /\ Len(a.cells) = Len(b.cells) /\ a.rows = b.rows /\ a.nets = b.nets
    /\ \A i \in 1..NCells(b) : [a.cells[i] EXCEPT !.w = 0] = [b.cells[i] EXCEPT !.w = 0] /\ (b.cells[i].f => a.cells[i].w = b.cells[i].w)
ExpandFails ==
    LET b == Ev.before a == Ev.after avail == AvailArea(Ev.before, Ev.m2) IN
    IF Ev.kind = "congestion"
    THEN (IF a # b THEN {F("C18", <<"computeCellExpansion modified the circuit">>, "exp-const")} ELSE {}) \cup
         (IF Ev.outcome # "ok" \/ ~Ev.exact \/ Len(Ev.res4) # NCells(b) THEN {F("C18", <<"expansion factors: wrong shape or inexact", Ev.outcome>>, "exp-shape")}
          ELSE LET exp(i) == IF b.cells[i].f THEN 4
                             ELSE LET e == b.cells[i]
                                      hits == { k \in 1..Len(Ev.regions) : Ev.regions[k].c4 > 4 /\
                                                  Ev.regions[k].x0 < X1(e) /\ e.x < Ev.regions[k].x1 /\ Ev.regions[k].y0 < Y1(e) /\ e.y < Ev.regions[k].y1 }
                                  IN IF hits = {} THEN 4 ELSE SetMax({ (Ev.regions[k].c4 - 4) * Ev.pf + Ev.fp4 + 4 : k \in hits })
                   bad == { i \in 1..NCells(b) : Ev.res4[i] # exp(i) }
               IN IF bad = {} THEN {} ELSE {F("C18", <<"expansion factor from the congestion map", bad>>, "exp-congestion")})
    ELSE
      (IF Ev.outcome # "ok" THEN {F("C18", <<"expansion raised an error">>, "exp-throw")} ELSE {}) \cup
      (IF OnlyMovableWidths(b, a) THEN {} ELSE {F("C18", <<"expansion changed something else than the widths of movable cells">>, "exp-frame")}) \cup
      (IF Len(a.cells) # Len(b.cells) THEN {}
       ELSE
        LET capW == IF Ev.kind = "density" THEN (SetMax({0} \cup { b.rows[r].x1 - b.rows[r].x0 : r \in 1..Len(b.rows) }) * Ev.cap64) \div 64 ELSE 1000000000
            shrunk == { i \in Movable(b) : a.cells[i].w < b.cells[i].w /\ capW >= b.cells[i].w }
            before == MovableArea(b) after == MovableArea(a) IN
        (IF shrunk = {} THEN {} ELSE {F("C18", <<"a movable cell became narrower", shrunk>>, "exp-shrink")}) \cup
        \* utilisation never above the target / cap beyond rounding, unless it already was (then nothing changes)
        (IF 64 * before >= Ev.p64 * avail \/ avail = 0 \/ before = 0
         THEN (IF after # before THEN {F("C18", <<"expansion although the density is already at the target">>, "exp-noop")} ELSE {})
         ELSE (IF 64 * after > Ev.p64 * avail + 64 * (IF Ev.kind = "density" THEN MaxH(b) ELSE SumH(b))
               THEN {F("C18", <<"utilisation above the requested target / cap", after, avail, Ev.p64>>, "exp-over")} ELSE {}) \cup
              \* the target is reached (within rounding) when no cell hit the width cap
              (IF Ev.kind = "density" /\ (\A i \in Movable(b) : b.cells[i].w * b.cells[i].h > 0 => a.cells[i].w < capW)
                  /\ 64 * after < Ev.p64 * avail - 64 * MaxH(b)
               THEN {F("C18", <<"target density not reached although no cell hit the cap", after, avail, Ev.p64>>, "exp-under")} ELSE {})))
ExpandEv == /\ Is("Expand") /\ fails' = ExpandFails
            /\ l' = l + 1 /\ UNCHANGED <<run, scen, params, base, objs, call, hist, expect>>

\* C16: capacity grid built from a circuit: regions = free row segments (rows minus fixed obstructions), clipped by the side
\* margin floor(sideMargin x smallest positive cell height) on both sides, segments not wider than twice the margin dropped.
GridRegions(c, margin) ==
    UNION { { <<s[1] + margin, s[2] - margin, c.rows[r].y0, c.rows[r].y1>> : s \in { s \in SegmentsOfRow(c, r) : s[2] - s[1] > 2 * margin } }
            : r \in 1..Len(c.rows) }
RECURSIVE SumOverSet(_, _)
SumOverSet(S, x) == IF S = {} THEN 0 ELSE LET q == CHOOSE q \in S : TRUE IN
                      Max2(0, Min2(q[2], x[2]) - Max2(q[1], x[1])) * Max2(0, Min2(q[4], x[4]) - Max2(q[3], x[3])) + SumOverSet(S \ {q}, x)
GridEv == /\ Is("Grid")
          /\ LET c == Ev.circ
                 margin == (Ev.m2 * Ev.minH) \div 2
                 regs == GridRegions(c, margin)
                 limX == Ev.limX limY == Ev.limY
                 bad == { k \in 1..Len(Ev.bins) :
                            Ev.bins[k].cap # SumOverSet(regs, <<limX[Ev.bins[k].i], limX[Ev.bins[k].i + 1], limY[Ev.bins[k].j], limY[Ev.bins[k].j + 1]>>) }
                 tot == SumOverSet(regs, <<limX[1], limX[Len(limX)], limY[1], limY[Len(limY)]>>)
                 all == SumOverSet(regs, <<-1000000, 1000000, -1000000, 1000000>>) IN
             fails' = (IF regs # {} /\ bad # {} THEN {F("C16", <<"bin capacity differs from the free row area inside the bin", bad>>, "grid-capacity")} ELSE {}) \cup
                      (IF regs # {} /\ (Ev.totalCap # tot \/ tot # all) THEN {F("C16", <<"grid does not account for all free area", Ev.totalCap, tot, all>>, "grid-total")} ELSE {})
          /\ l' = l + 1 /\ UNCHANGED <<run, scen, params, base, objs, call, hist, expect>>

\* C15: the free segments the code computed for one row, against Geometry.FreeSegments (endpoint-based)
FreeEv == /\ Is("Free")
          /\ LET exp == FreeSegments(Ev.row, Ev.obs)
                 got == { <<Ev.segs[k].x0, Ev.segs[k].x1>> : k \in 1..Len(Ev.segs) } IN
             fails' = (IF got # exp \/ Cardinality(got) # Len(Ev.segs) \/ \E k \in 1..Len(Ev.segs) : Ev.segs[k].o # Ev.row.o
                       THEN {F("C15", <<"free segments", got, "expected", exp>>, "freespace")} ELSE {})
          /\ l' = l + 1 /\ UNCHANGED <<run, scen, params, base, objs, call, hist, expect>>

\* C15: the rows a consumer of the free space works with (Circuit::computeRows, Legalizer::fromIspdCircuit,
\* DetailedPlacement::fromIspdCircuit, which also treats movable cells of another height than the rows as obstacles)
FreeUse == /\ Is("FreeUse")
           /\ LET c == Ev.circ
                  also == IF Ev.kind = "detailed" THEN { i \in Movable(c) : PH(c.cells[i]) # RowH(c) } ELSE {}
                  exp == FreeOfCircuit(c, also)
                  got == RowSet(Ev.rows) IN
              fails' = (IF Ev.threw # "" THEN {F("C15", <<"a consumer of the free space rejected a legalized circuit", Ev.kind, Ev.threw>>, "freespace-" \o Ev.kind)}
                        ELSE IF got # exp \/ Cardinality(got) # Len(Ev.rows)
                        THEN {F("C15", <<"rows used by a consumer of the free space", Ev.kind, got, "expected", exp>>, "freespace-" \o Ev.kind)} ELSE {})
           /\ l' = l + 1 /\ UNCHANGED <<run, scen, params, base, objs, call, hist, expect>>

\* C08: entry / exit of one of the two parallel lower-bound solves (hook events).  Contract taken from GlobalLoop:
\* at most the two solves of one step are in flight, both have ended before the next callback or the end of the call.
SolveEv == /\ Is("Solve") /\ call.active /\ call.stage = "global"
           /\ LET n == IF Ev.phase = "enter" THEN call.inflight + 1 ELSE call.inflight - 1
                  sameModel == Ev.phase = "exit" /\ Ev.order = 2 /\ Ev.mid = call.lastModel IN
              /\ call' = [call EXCEPT !.inflight = n, !.solves = @ + 1,
                                       !.lastModel = IF Ev.phase = "exit" THEN Ev.mid ELSE @]
              /\ fails' = (IF n < 0 \/ n > 2 THEN {F("C08", <<"solves in flight", n>>, "solve-nesting")} ELSE {}) \cup
                          (IF sameModel THEN {F("C08", <<"the two solves of one step ran on the same net model", Ev.mid>>, "solve-same-model")} ELSE {})
           /\ l' = l + 1 /\ UNCHANGED <<run, scen, params, base, objs, hist, expect>>
Schedule == /\ Is("Schedule") /\ ~call.active /\ fails' = {}
            /\ l' = l + 1 /\ UNCHANGED <<run, scen, params, base, objs, call, hist, expect>>
HarnessError == /\ Is("HarnessError") /\ fails' = {F("framework", <<"harness error", Ev>>, "harness")}
                /\ l' = l + 1 /\ UNCHANGED <<run, scen, params, base, objs, call, hist, expect>>

ExpectReject == /\ Is("ExpectReject") /\ ~call.active /\ expect' = "reject" /\ fails' = {}
                /\ l' = l + 1 /\ UNCHANGED <<run, scen, params, base, objs, call, hist>>

\* C19: the parameter constructor and the parameter check
ParamsCtor == /\ Is("ParamsCtor")
              /\ fails' = CtorFails(Ev.which, Ev.effort, Ev.outcome, Ev.passes)
              /\ l' = l + 1 /\ UNCHANGED <<run, scen, params, base, objs, call, hist, expect>>
ParamCheck == /\ Is("ParamCheck")
              /\ fails' = ParamCheckFails(Ev)
              /\ l' = l + 1 /\ UNCHANGED <<run, scen, params, base, objs, call, hist, expect>>

ParamSetEv == /\ Is("ParamSet") /\ fails' = ParamSetFails(Ev)
              /\ l' = l + 1 /\ UNCHANGED <<run, scen, params, base, objs, call, hist, expect>>
Next == CbFlood \/ ParamSetEv \/ HpwlScale \/ FreeUse \/ ApiEv \/ PassEv \/ PassThrow \/ RoundTrip \/ ExportEv \/ BindEv \/ ExpandEv \/ GridEv \/ SolveEv \/ Schedule \/ HarnessError \/ ExpectReject \/ ParamsCtor \/ ParamCheck \/ Rebase \/ FreeEv \/ Incr \/ Reset \/ Begin \/ Cb \/ CbThrow \/ EndReturn \/ EndThrow \/ BadFate \/ Setter
Spec == Init /\ [][Next]_vars

---------------------------------------------------------------------------
RECURSIVE SeqOfSet(_)
SeqOfSet(S) == IF S = {} THEN <<>> ELSE LET e == CHOOSE e \in S : TRUE IN <<e>> \o SeqOfSet(S \ {e})
NotAccepted == l <= Len(T)
Report == fails = {} \/ PrintT(ToJson([run |-> run, line |-> l - 1, ev |-> T[l - 1].e,
                                      fails |-> SeqOfSet(fails)]))
\* busy flag consistent with the call structure
ProtocolInv == call.active => call.obj \in ObjNames /\ call.stage \in {"global", "legalize", "detailed"}
Short == [l |-> l, run |-> run, active |-> call.active, stage |-> call.stage]
Post == LET d == TLCGet("stats").diameter - 1 IN
        IF d = Len(T) THEN TRUE
        ELSE PrintT(ToJson([rejected |-> TRUE, line |-> d + 1, ev |-> T[d + 1].e])) /\ FALSE
=============================================================================
