------------------------------ MODULE Transport ------------------------------
(***************************************************************************)
(* C13: all tiny transportation problems.  Two uses:                       *)
(*  - OracleCheck (cfg Transport_oracle): for every tiny instance and      *)
(*    EVERY feasible plan, the negative-cycle criterion of TransportOps    *)
(*    agrees with "cost equals the brute-force minimum" (self-check of the *)
(*    contract);                                                           *)
(*  - emission (cfg Transport_emit): every tiny instance is printed as     *)
(*    JSON and replayed into the real TransportationProblem::solve; the    *)
(*    resulting plans come back as a trace validated by TraceAlgo.         *)
(***************************************************************************)
EXTENDS Integers, Sequences, FiniteSets, TLC, Json, TransportOps
CONSTANTS NS, NR, DMax, CMax, KMax, WithPlans
VARIABLES cap, dem, cost, alloc
vars == <<cap, dem, cost, alloc>>
Sinks == 1..NS
Srcs == 1..NR

Cost(a) == TSum([i \in Sinks |-> TSum([s \in Srcs |-> a[i][s] * cost[i][s]], NR)], NS)
Allocs == [Sinks -> [Srcs -> 0..DMax]]
MinCost == LET cs == { Cost(a) : a \in { a \in Allocs : TFeasible(cap, dem, a) } } IN CHOOSE m \in cs : \A o \in cs : m <= o

Init == /\ cap \in [Sinks -> 1..CMax] /\ dem \in [Srcs -> 1..DMax]
        /\ TSum(dem, NR) <= TSum(cap, NS)
        /\ cost = [i \in Sinks |-> [s \in Srcs |-> 0]]
        /\ alloc = <<>>
\* factored enumeration: costs are chosen in a second step, plans in a third (keeps Init small and parallel)
PickCost == /\ alloc = <<>> /\ cost = [i \in Sinks |-> [s \in Srcs |-> 0]]
            /\ cost' \in [Sinks -> [Srcs -> 0..KMax]] /\ cost' # cost
            /\ UNCHANGED <<cap, dem, alloc>>
PickPlan == /\ WithPlans /\ alloc = <<>>
            /\ alloc' \in Allocs /\ TFeasible(cap, dem, alloc')
            /\ UNCHANGED <<cap, dem, cost>>
Next == PickCost \/ PickPlan
Spec == Init /\ [][Next]_vars

OracleAgrees == alloc # <<>> => (NoNegCycle(cap, dem, cost, alloc) <=> (Cost(alloc) = MinCost))
Emit == alloc # <<>> \/ PrintT(ToJson([scen |-> "transport",
                                         inst |-> [cap |-> cap, dem |-> dem, cost |-> cost, float |-> FALSE, increase |-> FALSE]]))
=============================================================================
