----------------------------- MODULE Transport1d -----------------------------
(***************************************************************************)
(* C14: all tiny one-dimensional transportation instances (unsorted and    *)
(* duplicate positions, zero supplies and zero demands, slack or exact     *)
(* balance), emitted for replay into Transportation1d::solve / assign.     *)
(* The contract is TransportOps with cost |u - v| plus Assign1dOK; it is   *)
(* evaluated by TraceAlgo on what the real code returned.                  *)
(***************************************************************************)
EXTENDS Integers, Sequences, FiniteSets, TLC, Json, TransportOps
CONSTANTS NR, NS, PMax, SMax, DMax
VARIABLES u, v, s, d
vars == <<u, v, s, d>>
Init == /\ s \in [1..NR -> 0..SMax] /\ d \in [1..NS -> 0..DMax]
        /\ TSum(s, NR) <= TSum(d, NS)
        /\ u = <<>> /\ v = <<>>
Place == /\ u = <<>>
         /\ u' \in [1..NR -> 0..PMax] /\ v' \in [1..NS -> 0..PMax]
         /\ UNCHANGED <<s, d>>
Next == Place
Spec == Init /\ [][Next]_vars
Emit == u = <<>> \/ PrintT(ToJson([scen |-> "t1d", inst |-> [u |-> u, v |-> v, s |-> s, d |-> d, balance |-> FALSE]]))
=============================================================================
