---------------------------- MODULE TransportOps ----------------------------
(***************************************************************************)
(* Contract operators of the transportation problems (C13, C14).           *)
(*   cap[i]  capacity of sink i,   dem[s]  demand (supply) of source s,    *)
(*   cost[i][s], alloc[i][s]  indexed sink first, as in the implementation.*)
(* Optimality is expressed without products: a feasible plan has minimum   *)
(* cost iff the residual graph on the sinks has no negative cycle (edge    *)
(* i -> j of weight min over sources s with alloc[i][s] > 0 of             *)
(* cost[j][s] - cost[i][s]; a sink with spare capacity can absorb flow, so *)
(* it is the end of a path rather than part of a cycle: modelled by        *)
(* 0-weight edges from every sink with spare capacity to a virtual node    *)
(* and from the virtual node to every sink ... equivalently edges of       *)
(* weight 0 between any two sinks i -> j when j has spare capacity is NOT  *)
(* what is meant; see Edge below).  Transport.tla checks this criterion    *)
(* against the brute-force minimum over all feasible plans.                *)
(***************************************************************************)
EXTENDS Integers, Sequences, FiniteSets, TLC

TSinks(cap) == 1..Len(cap)
TSrcs(dem) == 1..Len(dem)
RECURSIVE TSum(_, _)
TSum(f, n) == IF n = 0 THEN 0 ELSE f[n] + TSum(f, n - 1)
UsedCap(a, i, m) == TSum([s \in 1..m |-> a[i][s]], m)
Sent(a, s, n) == TSum([i \in 1..n |-> a[i][s]], n)

TFeasible(cap, dem, a) ==
    /\ Len(a) = Len(cap) /\ \A i \in TSinks(cap) : Len(a[i]) = Len(dem)
    /\ \A i \in TSinks(cap), s \in TSrcs(dem) : a[i][s] >= 0
    /\ \A s \in TSrcs(dem) : Sent(a, s, Len(cap)) = dem[s]
    /\ \A i \in TSinks(cap) : UsedCap(a, i, Len(dem)) <= cap[i]

INF == 2147483000   \* above every difference of two costs below 2^30
\* Residual edge i -> j: moving one unit of some source from sink i to sink j.
\* Node 0 (index n+1 below) stands for "unused capacity": j -> 0 has weight 0 when j has spare capacity,
\* 0 -> i has weight 0 ... a unit can only *leave* spare capacity, i.e. a path  i -> j -> spare  decreases
\* the load of i; there is no edge from spare back to a sink that would create load out of nothing except
\* by removing it elsewhere.  The standard reduction: add a dummy source of demand (total capacity - total
\* demand) with cost 0 everywhere; the dummy is allocated exactly the spare capacity of each sink.
EdgeW(cap, dem, cost, a, i, j) ==
    LET m == Len(dem)
        ws == { cost[j][s] - cost[i][s] : s \in { s \in 1..m : a[i][s] > 0 } }
              \cup (IF UsedCap(a, i, m) < cap[i] THEN {0} ELSE {})   \* the dummy source sits on sink i
    IN IF i = j \/ ws = {} THEN INF ELSE CHOOSE w \in ws : \A o \in ws : w <= o

RECURSIVE FW(_, _, _)
FW(d, k, n) == IF k > n THEN d
               \* TLCEval forces the matrix of this round (TLC would otherwise re-evaluate the lazy argument
               \* at every use: exponential in n)
               ELSE FW(TLCEval([i \in 1..n |-> [j \in 1..n |->
                         IF d[i][k] < INF /\ d[k][j] < INF /\ d[i][k] + d[k][j] < d[i][j]
                         THEN d[i][k] + d[k][j] ELSE d[i][j]]]), k + 1, n)
NoNegCycle(cap, dem, cost, a) ==
    LET n == Len(cap)
        d0 == TLCEval([i \in 1..n |-> [j \in 1..n |-> IF i = j THEN 0 ELSE EdgeW(cap, dem, cost, a, i, j)]])
        d == FW(d0, 1, n)
    IN \A i \in 1..n : d[i][i] >= 0

\* Certificate form of the same criterion, linear to check (used on recorded executions, where TLC's lazy
\* evaluation makes the recursive Floyd-Warshall above exponential): potentials pot on the sinks with
\* pot[j] <= pot[i] + w(i,j) for every residual edge prove that no negative cycle exists (LP duality).  The
\* potentials are supplied by the harness and are untrusted: only this check counts.
CertOK(cap, dem, cost, a, pot) ==
    /\ Len(pot) = Len(cap)
    /\ \A i \in 1..Len(cap), j \in 1..Len(cap) :
         i # j => LET w == EdgeW(cap, dem, cost, a, i, j) IN (w = INF \/ pot[j] <= pot[i] + w)

\* the same with potentials beyond 32 bits, logged as pot = hi * 2^20 + lo (0 <= lo < 2^20): costs produced by the solver's own
\* integer scaling may approach 2^30, and path sums over several sinks exceed what TLC's integers hold
LeqSplit(hj, lj, hi, li, w) == LET dh == hj - hi IN
                               IF dh > 1500 THEN FALSE ELSE IF dh < -1500 THEN TRUE ELSE dh * 1048576 + (lj - li) <= w
CertOKSplit(cap, dem, cost, a, poth, potl) ==
    /\ Len(poth) = Len(cap) /\ Len(potl) = Len(cap)
    /\ \A i \in 1..Len(cap), j \in 1..Len(cap) :
         i # j => LET w == EdgeW(cap, dem, cost, a, i, j) IN (w = INF \/ LeqSplit(poth[j], potl[j], poth[i], potl[i], w))

\* the assignment derived from a plan gives each source a sink that receives most of it
AssignOK(a, assign) ==
    /\ Len(a) > 0 => Len(assign) = Len(a[1])
    /\ \A s \in 1..Len(assign) :
         /\ assign[s] \in 1..Len(a)
         /\ \A i \in 1..Len(a) : a[i][s] <= a[assign[s]][s]

AbsT(x) == IF x < 0 THEN -x ELSE x
\* C14 rounding: one sink of positive demand per source; a source the plan does not split follows the plan
\* (or goes to another sink at the same position)
Assign1dOK(u, v, s, d, a, assign) ==
    /\ Len(assign) = Len(u)
    /\ \A i \in 1..Len(u) :
         /\ assign[i] \in 1..Len(v)
         /\ ((\E j \in 1..Len(v) : d[j] > 0) => d[assign[i]] > 0)
         /\ \A j \in 1..Len(v) : (s[i] > 0 /\ a[j][i] = s[i]) => v[assign[i]] = v[j]
=============================================================================
