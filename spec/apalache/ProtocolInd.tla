----------------------------- MODULE ProtocolInd -----------------------------
(***************************************************************************)
(* C10, unbounded: the busy-circuit protocol of PlaceProtocol.tla restated  *)
(* with type annotations for Apalache (integers and strings only), without  *)
(* the bounds on the number of calls / callbacks / setters.  IndInv is an   *)
(* inductive invariant: Apalache discharges  Init => IndInv  (length 0)     *)
(* and  IndInv /\ Next => IndInv'  (length 1), which proves                 *)
(* IdleMeansUnlocked and StructureStable for behaviours of any length.      *)
(***************************************************************************)
EXTENDS Integers

VARIABLES
    \* @type: Bool;
    flag,
    \* @type: Str;
    phase,
    \* @type: Str;
    stage,
    \* @type: Int;
    ncb,
    \* @type: Int;
    struct,
    \* @type: Int;
    place,
    \* @type: Int;
    structAtBegin,
    \* @type: Int;
    placeAtBegin

Phases == {"idle", "checking", "running", "cb", "unwinding"}
Stages == {"global", "legalize", "detailed"}

Init == /\ flag = FALSE /\ phase = "idle" /\ stage = "legalize" /\ ncb = 0 /\ struct = 0 /\ place = 0
        /\ structAtBegin = 0 /\ placeAtBegin = 0

Begin == /\ phase = "idle" /\ flag' = TRUE /\ phase' = "checking" /\ stage' \in Stages /\ ncb' = 0
         /\ structAtBegin' = struct /\ placeAtBegin' = place /\ UNCHANGED <<struct, place>>
ParamsOK == /\ phase = "checking" /\ phase' = "running" /\ UNCHANGED <<flag, stage, ncb, struct, place, structAtBegin, placeAtBegin>>
RejectParams == /\ phase = "checking" /\ phase' = "unwinding" /\ UNCHANGED <<flag, stage, ncb, struct, place, structAtBegin, placeAtBegin>>
Callback == /\ phase = "running" /\ place' = place + 1 /\ ncb' = ncb + 1 /\ phase' = "cb"
            /\ UNCHANGED <<flag, stage, struct, structAtBegin, placeAtBegin>>
CbReturn == /\ phase = "cb" /\ phase' = "running" /\ UNCHANGED <<flag, stage, ncb, struct, place, structAtBegin, placeAtBegin>>
CbThrow == /\ phase = "cb" /\ phase' = "unwinding" /\ UNCHANGED <<flag, stage, ncb, struct, place, structAtBegin, placeAtBegin>>
Infeasible == /\ phase = "running" /\ stage \in {"legalize", "detailed"} /\ ncb = 0 /\ phase' = "unwinding"
              /\ UNCHANGED <<flag, stage, ncb, struct, place, structAtBegin, placeAtBegin>>
EndReturn == /\ phase = "running" /\ place' = place + 1 /\ phase' = "idle" /\ flag' = FALSE
             /\ UNCHANGED <<stage, ncb, struct, structAtBegin, placeAtBegin>>
EndThrow == /\ phase = "unwinding" /\ phase' = "idle" /\ flag' = FALSE
            /\ UNCHANGED <<stage, ncb, struct, place, structAtBegin, placeAtBegin>>
\* a structural setter, from outside or from a callback: refused iff the flag is set
Setter == /\ phase \in {"idle", "cb"}
          /\ struct' = IF flag THEN struct ELSE struct + 1
          /\ UNCHANGED <<flag, phase, stage, ncb, place, structAtBegin, placeAtBegin>>

Next == Begin \/ ParamsOK \/ RejectParams \/ Callback \/ CbReturn \/ CbThrow \/ Infeasible \/ EndReturn \/ EndThrow \/ Setter

IdleMeansUnlocked == (phase = "idle") <=> ~flag
StructureStable == phase # "idle" => struct = structAtBegin
NoWorkBeforeCheck == phase = "checking" => place = placeAtBegin
FailedLegalizationUntouched == (phase = "unwinding" /\ ncb = 0) => place = placeAtBegin
IndInv == /\ phase \in Phases /\ stage \in Stages /\ ncb >= 0
          /\ IdleMeansUnlocked /\ StructureStable /\ NoWorkBeforeCheck
          /\ ((phase \in {"running", "unwinding"} /\ ncb = 0) => place = placeAtBegin)
          /\ (phase = "cb" => ncb >= 1)
\* the inductive invariant as an initial predicate (every variable gets a domain first)
IndInit == /\ flag \in BOOLEAN /\ phase \in Phases /\ stage \in Stages /\ ncb \in Nat
           /\ struct \in Int /\ place \in Int /\ structAtBegin \in Int /\ placeAtBegin \in Int
           /\ IndInv
=============================================================================
