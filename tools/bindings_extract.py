#!/usr/bin/env python3
"""C20: extract the binding table of pycoloquinte/module.cpp (python name -> C++ entity) as Bind events and look every
C++ entity up in src/coloquinte.hpp.   usage: bindings_extract.py <repo> <out trace>"""
import json
import re
import sys

repo, out = sys.argv[1:3]
text = open(repo + "/pycoloquinte/module.cpp").read()
hpp = open(repo + "/src/coloquinte.hpp").read()


def norm(s):
    return s.replace("_", "").lower()


def block_of(name):
    """text of `struct/class/enum class <name> ... };` in coloquinte.hpp"""
    m = re.search(r"(?:struct|class|enum class)\s+%s\b[^;{]*\{" % re.escape(name), hpp)
    if not m:
        return ""
    i = m.end()
    depth = 1
    while i < len(hpp) and depth:
        depth += {"{": 1, "}": -1}.get(hpp[i], 0)
        i += 1
    return hpp[m.start():i]


def exists(cls, member):
    return re.search(r"\b%s\b" % re.escape(member), block_of(cls)) is not None


events = []
# split into statements per bound entity
for m in re.finditer(r"py::enum_<(\w+)>\(m,\s*\"(\w+)\"\)(.*?);", text, re.S):
    cpp_enum, py_enum, body = m.groups()
    for v in re.finditer(r"\.value\(\"(\w+)\",\s*(\w+)::(\w+)", body):
        pyname, cls, cppname = v.groups()
        events.append({"e": "Bind", "kind": "enum", "owner": py_enum, "py": pyname, "cppClass": cls, "cpp": cppname, "pyn": norm(pyname), "cppn": norm(cppname),
                       "sameOwner": cls == cpp_enum, "exists": exists(cls, cppname)})
for m in re.finditer(r"py::class_<(\w+)[^>]*>\(m,\s*\"(\w+)\"\)(.*?)\n\s*;|py::class_<(\w+)[^>]*>\(m,\s*\"(\w+)\"\)(.*?);\n", text, re.S):
    g = m.groups()
    cpp_cls, py_cls, body = (g[0], g[1], g[2]) if g[0] else (g[3], g[4], g[5])
    for v in re.finditer(r"\.def_readwrite\(\s*\"(\w+)\",\s*&(\w+)::(\w+)", body):
        pyname, cls, cppname = v.groups()
        events.append({"e": "Bind", "kind": "attr", "owner": py_cls, "py": pyname, "cppClass": cls, "cpp": cppname, "pyn": norm(pyname), "cppn": norm(cppname),
                       "sameOwner": cls == cpp_cls, "exists": exists(cls, cppname)})
    for v in re.finditer(r"\.def_property(_readonly)?\(\s*\"(\w+)\",\s*&(\w+)::(\w+)(?:,\s*&(\w+)::(\w+))?", body):
        ro, pyname, cls, getter, cls2, setter = v.groups()
        g = norm(getter)
        if g.startswith("compute"):
            g = g[len("compute"):]
        ev = {"e": "Bind", "kind": "prop", "owner": py_cls, "py": pyname, "cppClass": cls, "cpp": getter, "pyn": norm(pyname), "cppn": g,
              "sameOwner": cls == cpp_cls or cls in ("Rectangle",), "exists": exists(cls, getter)}
        events.append(ev)
        if setter:
            events.append({"e": "Bind", "kind": "setter", "owner": py_cls, "py": pyname, "cppClass": cls2, "cpp": setter, "pyn": "set" + norm(pyname), "cppn": norm(setter),
                           "sameOwner": cls2 == cpp_cls, "exists": exists(cls2, setter)})
    for v in re.finditer(r"\.def\(\s*\"(\w+)\",\s*&(\w+)::(\w+)", body):
        pyname, cls, cppname = v.groups()
        if pyname.startswith("__"):
            continue
        events.append({"e": "Bind", "kind": "method", "owner": py_cls, "py": pyname, "cppClass": cls, "cpp": cppname, "pyn": norm(pyname), "cppn": norm(cppname),
                       "sameOwner": cls == cpp_cls, "exists": exists(cls, cppname)})
with open(out, "w") as f:
    for k, e in enumerate(events):
        e["run"] = k
        f.write(json.dumps(e) + "\n")
print(len(events))
