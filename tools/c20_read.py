#!/usr/bin/env python3
"""C20: re-read the benchmarks exported by the real Circuit::exportIspd with the package's own reader
(pycoloquinte/coloquinte.py running against the pure-Python stand-in of the compiled module) and append one
RoundTrip event per circuit to the trace.   usage: c20_read.py <export trace> <out trace> <repo>"""
import importlib.util
import json
import os
import sys

src, out, repo = sys.argv[1:4]
here = os.path.dirname(os.path.abspath(__file__))
sys.path.insert(0, os.path.join(os.path.dirname(here), "pystub"))
spec = importlib.util.spec_from_file_location("coloquinte_reader", os.path.join(repo, "pycoloquinte", "coloquinte.py"))
mod = importlib.util.module_from_spec(spec)
spec.loader.exec_module(mod)


def to_json(c):
    cells = []
    for i in range(c.nb_cells):
        o = c.cell_orientation[i]
        cells.append({"w": c.cell_width[i], "h": c.cell_height[i], "f": bool(c.cell_is_fixed[i]), "x": c.cell_x[i], "y": c.cell_y[i],
                      "o": o.name if o is not None else "NONE"})
    nets = [{"pins": [{"c": cc + 1, "dx": dx, "dy": dy} for cc, dx, dy in zip(n[0], n[1], n[2])]} for n in c.nets]
    rows = [{"x0": r.min_x, "x1": r.max_x, "y0": r.min_y, "y1": r.max_y, "o": r.orientation.name} for r in c.rows]
    return {"cells": cells, "nets": nets, "rows": rows}


with open(out, "w") as fo:
    for line in open(src):
        e = json.loads(line)
        fo.write(line if line.endswith("\n") else line + "\n")
        if e.get("e") != "Export":
            continue
        ev = {"e": "RoundTrip", "run": e["run"], "before": e["circ"]}
        try:
            c = mod.Circuit.read_ispd(e["path"] + ".aux")
            ev["after"] = to_json(c)
            ev["outcome"] = "ok"
        except Exception as ex:  # noqa
            ev["after"] = {"cells": [], "nets": [], "rows": []}
            ev["outcome"] = "error: %s: %s" % (type(ex).__name__, str(ex)[:200])
        fo.write(json.dumps(ev) + "\n")
