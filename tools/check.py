#!/usr/bin/env python3
"""Entry point of every registered check:  tools/check.py <property id> [--tier quick|thorough] [--replay <path>]"""
import argparse
import importlib
import os
import sys

sys.path.insert(0, os.path.dirname(os.path.abspath(__file__)))
import vlib  # noqa: E402


def main():
    ap = argparse.ArgumentParser()
    ap.add_argument("pid")
    ap.add_argument("--tier", default=None)
    ap.add_argument("--replay", default=None)
    ap.add_argument("--seed", default=None)
    a = ap.parse_args()
    os.chdir(vlib.VERIF)
    mod = importlib.import_module("checks." + a.pid.lower())
    if a.replay:
        vlib.run_check(lambda: mod.replay(a.replay), a.pid)
    chk = vlib.Check(a.pid, mod.LEVEL, tier=a.tier, seed=a.seed)
    vlib.run_check(lambda: mod.run(chk), a.pid)


if __name__ == "__main__":
    main()
