"""C01 Legalization returns a legal placement or fails loudly (DESIGN.md section 5)."""
import shutil

import tracecheck
from checks.common import small_scope
import vlib

LEVEL = "model_checking"


def nontrivial(chk, allruns):
    """A legalize execution is non-trivial if it returned, moved at least one cell and has >= 2 movable cells."""
    for rid, evs in allruns.items():
        chk.count()
        reset = [e for e in evs if e["e"] == "Reset"]
        rets = [e for e in evs if e["e"] == "EndReturn"]
        if not reset or not rets:
            continue
        c0, c1 = reset[0]["circ"]["cells"], rets[0]["circ"]["cells"]
        mov = [i for i, e in enumerate(c0) if not e["f"]]
        if len(mov) >= 2 and any((c0[i]["x"], c0[i]["y"]) != (c1[i]["x"], c1[i]["y"]) for i in mov):
            chk.nontrivial("run%s%s" % ("x" if reset[0].get("explicit") else "", reset[0]["gseed"]))
            chk.sample({"run": rid, "movable": len(mov), "rows": len(reset[0]["circ"]["rows"]),
                        "params": reset[0]["params"]}, limit=4)


def run(chk):
    small_scope(chk, "C01", nontrivial)
    n = chk.pick(1600, 40000)
    for flavour, share in (("asan-ubsan", 1.0),):
        results, d, allruns, exe = tracecheck.record_and_validate(
            chk, flavour, "record", "leg", int(n * share), {"cb": 2, "varyScale": 1})
        tracecheck.attribute(chk, results, "C01", exe, "leg", flavour, d)
        nontrivial(chk, allruns)
        shutil.rmtree(d, ignore_errors=True)
    # "never fails when success is trivial": row-high unrestricted cells with room to spare, all starting on or beyond one edge of the rows
    results, d, allruns, exe = tracecheck.record_and_validate(
        chk, "rel", "record", "leg", chk.pick(600, 15000),
        {"cb": 0, "clump": 1, "singleRowOnly": 1, "polar": 0, "turned": 0, "maxMovable": 30, "utilLo": 0.3, "utilHi": 0.8, "maxFixed": 2, "varyScale": 1},
        seed_offset=303)
    tracecheck.attribute(chk, results, "C01", exe, "leg", "rel", d)
    held = sum(1 for rep, _e, _p in results for f in rep["fails"] if f["sig"] == "c01-trivial-antecedent")
    chk.cov.setdefault("antecedents_held", {})["c01-trivial-antecedent"] = held
    if held == 0:
        raise vlib.FrameworkError("vacuous: success was never trivial in the plan made for that clause")
    nontrivial(chk, allruns)
    shutil.rmtree(d, ignore_errors=True)
    # the obstructions and rows legality is stated over are those the caller declared, whatever the order of the setter calls
    results, d, allruns, exe = tracecheck.record_and_validate(chk, "asan-ubsan", "record_proto", "api", chk.pick(200, 5000), {}, seed_offset=404)
    tracecheck.attribute(chk, results, "C01", exe, "api", "asan-ubsan", d, exe_name="record_proto")
    for _rid in allruns:
        chk.count()
    shutil.rmtree(d, ignore_errors=True)
    chk.cov["rule"] = ("exhaustive small scope (LegalizeCases.tla: 2 row levels x orientation patterns x optional split x optional fixed cell x up to 2 movable "
                       "cells with widths, heights 1-2 rows, polarities, targets) legalized twice by the real code; legalize executions on seeded random circuits of the C01 domain (split rows, gaps, orientation patterns, "
                       "multi-row cells, macros, turned cells, polarities, fixed cells anywhere, utilisation 5%-130%, random accepted "
                       "parameter sets); non-trivial = returned, moved a cell, >= 2 movable cells; distinct by generator seed")
    chk.assumptions += ["TLC evaluates Geometry.Legal / TrivialFit on every recorded event",
                        "the JSON projection of the circuit (harness/project.hpp) is faithful"]
    return chk.finish()


def replay(path):
    return tracecheck.replay_file(path)
