"""C02 Detailed placement keeps the placement legal at every exposed state."""
import tracecheck
from checks.common import run_plan, first, all_of, moved, model_replay_validate

LEVEL = "model_checking"


def nontrivial(chk, st, rid, evs):
    rs = first(evs, "Reset")
    cbs = all_of(evs, "Cb", obj="B") if st["scen"] == "det" else all_of(evs, "Cb")
    ret = [e for e in all_of(evs, "EndReturn") if e["obj"] == ("B" if st["scen"] == "det" else "A")]
    if not rs or not ret:
        return
    ref = cbs[0]["circ"]["cells"] if cbs else None
    fin = ret[-1]["circ"]["cells"]
    if ref is not None and len(moved(ref, fin)) >= 1:
        chk.nontrivial("g%s" % rs["gseed"])
        chk.sample({"run": rid, "scen": st["scen"], "callbacks": len(cbs), "cells_moved_by_detailed": len(moved(ref, fin)),
                    "params": rs["params"]}, limit=4)


def run(chk):
    plan = [
        dict(flavour="asan-ubsan", scen="det", runs=(1200, 30000), opts={"cb": 1, "varyScale": 1}),
        dict(flavour="rel", scen="det", runs=(800, 20000), opts={"cb": 2, "varyScale": 1, "maxMovable": 16}),
        dict(flavour="asan-ubsan", scen="passes", runs=(600, 20000), opts={"varyScale": 10, "maxMovable": 14}),
    ]
    model_replay_validate(chk, "DetailedRows", "DetailedRows_legal_" + chk.tier, "row lists of detailed placement: every feasible swap/insert sequence (legal scope)", ("C02",))
    model_replay_validate(chk, "DetailedRows", "DetailedRows_orient_" + chk.tier, "row lists of detailed placement: every feasible swap/insert sequence (orient scope)", ("C02",))
    run_plan(chk, "C02", plan, nontrivial)
    chk.cov["rule"] = ("placeDetailed executions (with a legalize-only reference run on a copy) on seeded random circuits of the C01 domain "
                       "with random accepted parameter sets incl. reordering and wide windows; every Detailed callback and the return are "
                       "checked by TLC (Legal, ignored cells fixed, no failure where legalization succeeds); non-trivial = detailed "
                       "placement moved at least one cell after legalization; distinct by generator seed")
    return chk.finish()


def replay(path):
    return tracecheck.replay_file(path)
