"""C03 Placement only moves movable cells; everything else is untouched."""
import tracecheck
from checks.common import run_plan, first, all_of, moved

LEVEL = "model_checking"


def nontrivial(chk, st, rid, evs):
    rs = first(evs, "Reset")
    if not rs:
        return
    nfix = sum(1 for e in rs["circ"]["cells"] if e["f"])
    ends = all_of(evs, "EndReturn") + all_of(evs, "EndThrow")
    if nfix >= 1 and ends and any(moved(rs["circ"]["cells"], e["circ"]["cells"]) for e in ends):
        chk.nontrivial("%s-g%s" % (st["scen"], rs["gseed"]))
        chk.sample({"run": rid, "scen": st["scen"], "fixed_cells": nfix, "ends": [e["e"] for e in ends]}, limit=4)


def run(chk):
    plan = [
        dict(flavour="asan-ubsan", scen="full", runs=(500, 12000), opts={"cb": 2, "globalDomain": 1, "scaleShift": 2}),
        dict(flavour="rel", scen="leg", runs=(700, 15000), opts={"cb": 2, "varyScale": 1}),
        dict(flavour="rel", scen="det", runs=(500, 10000), opts={"cb": 2, "varyScale": 1}),
        dict(flavour="rel", scen="glob", runs=(300, 6000), opts={"cb": 2, "globalDomain": 1, "scaleShift": 3}),
    ]
    run_plan(chk, "C03", plan, nontrivial)
    chk.cov["rule"] = ("executions of global placement, legalization, detailed placement and their composition on seeded random circuits with "
                       "fixed cells anywhere (with/without nets, obstruction or not, zero-size), with and without callbacks, including runs "
                       "ending in an exception; TLC evaluates Frame/FrameGlobal between the circuit at Reset and every exposed state; "
                       "non-trivial = at least one fixed cell present and some movable cell moved; distinct by (scenario, generator seed)")
    return chk.finish()


def replay(path):
    return tracecheck.replay_file(path)
