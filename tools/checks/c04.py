"""C04 Row polarity and orientation constraints are honoured."""
import tracecheck
from checks.common import run_plan, first, all_of, moved, model_replay_validate, replay_cases, small_scope

LEVEL = "model_checking"


def nontrivial(chk, st, rid, evs):
    rs = first(evs, "Reset")
    ret = all_of(evs, "EndReturn")
    if not rs or not ret:
        return
    pol = [i for i, e in enumerate(rs["circ"]["cells"]) if not e["f"] and e["p"] != "ANY"]
    c0, c1 = rs["circ"]["cells"], ret[-1]["circ"]["cells"]
    if pol and any(c0[i]["y"] != c1[i]["y"] or c0[i]["o"] != c1[i]["o"] for i in pol):
        chk.nontrivial("%s-g%s" % (st["scen"], rs["gseed"]))
        chk.sample({"run": rid, "scen": st["scen"], "polarised_cells": len(pol),
                    "row_orients": sorted({r["o"] for r in rs["circ"]["rows"]})}, limit=4)


def run(chk):
    plan = [
        dict(flavour="asan-ubsan", scen="det", runs=(1200, 30000), opts={"cb": 1}),
        dict(flavour="rel", scen="leg", runs=(800, 20000), opts={"cb": 2, "varyScale": 1}),
        dict(flavour="rel", scen="det", runs=(800, 20000), opts={"cb": 1, "maxMovable": 14}),
        # the row-reordering pass (off in the stock efforts) always on, over two or three rows
        dict(flavour="rel", scen="det", runs=(800, 20000), opts={"cb": 1, "maxMovable": 14, "reorderFocus": 1, "multiRow": 0}),
        # the polarities the circuit stores are those the caller gave (histories of the public mutators, abstract data type in PlaceAPI.tla)
        dict(flavour="asan-ubsan", exe="record_proto", scen="api", runs=(200, 5000), opts={}),
    ]
    # the code's polarity table / opposite-row function against the generator-based algebra (exhaustive)
    replay_cases(chk, "OrientCases", "OrientCases", "polarity x row orientation table and orientation algebra")
    model_replay_validate(chk, "DetailedRows", "DetailedRows_orient_" + chk.tier, "row lists of detailed placement: every feasible swap/insert sequence (orient scope)", ("C04",))
    small_scope(chk, "C04", lambda ch, runs: [nontrivial(ch, {"scen": "legcase"}, rid, evs) or ch.count() for rid, evs in runs.items()],
                cfg=chk.pick("LegalizeCases_pol", "LegalizeCases_thorough"))
    run_plan(chk, "C04", plan, nontrivial)
    chk.cov["rule"] = ("exhaustive table: every (polarity, row orientation) pair and every orientation replayed into cellOrientationInRow / "
                       "oppositeRowOrientation / isTurn; traces: legalize and placeDetailed (every Detailed callback) on random circuits with all five "
                       "polarities on 1..6-row cells and alternating / uniform / irregular N,S,FN,FS row patterns, both build flavours; non-trivial = "
                       "a polarised movable cell changed row or orientation; distinct by (scenario, generator seed)")
    return chk.finish()


def replay(path):
    return tracecheck.replay_file(path)
