"""C05 Detailed placement never worsens wirelength."""
import tracecheck
import vlib
from checks.common import run_plan, first, all_of, moved

LEVEL = "model_checking"


def nontrivial(chk, st, rid, evs):
    rs = first(evs, "Reset")
    cbs = all_of(evs, "Cb", obj="B")
    ret = all_of(evs, "EndReturn", obj="B")
    if not rs or not ret or not rs["circ"]["nets"]:
        return
    ref = cbs[0]["wl"] if cbs else None
    if ref is not None and ret[-1]["wl"] < ref:
        chk.nontrivial("g%s" % rs["gseed"])
        chk.sample({"run": rid, "wl_legalized": ref, "wl_callbacks": [e["wl"] for e in cbs], "wl_final": ret[-1]["wl"],
                    "polar": st["opts"].get("polar", 1)}, limit=5)


def run(chk):
    # design level: accepted moves decrease the frozen-offset value; the true wirelength follows it while no cell is re-oriented
    res = vlib.tlc_ok(vlib.tlc("DetailedWl", cfg="DetailedWl_any", workers=8, coverage=True, timeout=900), "DetailedWl_any")
    if res["violated"]:
        raise vlib.FrameworkError("DetailedWl (no polarities) violates its properties: %s" % res["violated"])
    chk.add_tlc(res, "tlc wirelength under accepted swap/insert moves, cells without polarity (ValueDecreases, WlFollowsValue, WlNeverWorse hold)")
    polar = vlib.tlc("DetailedWl", cfg="DetailedWl_polar", workers=8, timeout=900)
    chk.step("design-level counterexample of the open finding frozen-pin-offsets-after-reorientation (polarised cells)",
             WlNeverWorse_violated=bool(polar["violated"]), distinct=polar["distinct"])
    plan = [
        # without polarities no cell is ever re-oriented: any increase is a violation (the open finding cannot match)
        dict(flavour="asan-ubsan", scen="det", runs=(900, 25000), opts={"cb": 1, "polar": 0, "maxNets": 16, "varyScale": 1}),
        dict(flavour="rel", scen="det", runs=(900, 25000), opts={"cb": 2, "polar": 1, "maxNets": 16, "maxMovable": 14}),
        dict(flavour="asan-ubsan", scen="passes", runs=(700, 25000), opts={"polar": 0, "maxNets": 16, "maxMovable": 14, "varyScale": 10}),
        # the same circuits far from the origin (translations by 2^24 .. 2^27: beyond the integers a float represents exactly)
        dict(flavour="rel", scen="det", runs=(900, 25000), opts={"cb": 1, "polar": 0, "maxNets": 16, "translate": 1}),
    ]
    run_plan(chk, "C05", plan, nontrivial)
    chk.cov["rule"] = ("placeDetailed executions on random circuits with nets of degree 1..many (repeated cells, fixed pins, offsets inside/outside "
                       "the cell), at the origin and translated by 2^24..2^27; TLC recomputes the HPWL of every exposed state with the orientation algebra and checks it is non-increasing "
                       "over callbacks and not above the legalized placement; non-trivial = wirelength strictly decreased; distinct by seed")
    return chk.finish()


def replay(path):
    return tracecheck.replay_file(path)
