"""C06 Global placement stays inside the placement area and exports the blend."""
import tracecheck
import vlib
from checks.common import run_plan, first, all_of

LEVEL = "model_checking"


def nontrivial(chk, st, rid, evs):
    rs = first(evs, "Reset")
    ret = first(evs, "EndReturn")
    ubs = all_of(evs, "Cb", step="UpperBound")
    lbs = all_of(evs, "Cb", step="LowerBound")
    if rs and ret and ubs and lbs:
        # LB and UB differ by several units somewhere: a wrong blend would be visible
        a, b = lbs[-1]["circ"]["cells"], ubs[-1]["circ"]["cells"]
        if any(not e["f"] and abs(e["x"] - b[i]["x"]) + abs(e["y"] - b[i]["y"]) >= 6 for i, e in enumerate(a)):
            chk.nontrivial("g%s" % rs["gseed"])
            chk.sample({"run": rid, "callbacks": [e["step"][0] for e in all_of(evs, "Cb")][:40], "export_blending_permille": rs["params"]["blend"],
                        "net_model": rs["params"]["model"], "cost_model": rs["params"]["cost"]}, limit=4)


def run(chk):
    res = vlib.tlc_ok(vlib.tlc("GlobalLoop", cfg="GlobalLoop_FALSE", workers=4, coverage=True, timeout=600), "loop")
    if res["violated"]:
        raise vlib.FrameworkError("GlobalLoop violates its own properties: %s" % res["violated"])
    for act in ("InitStep", "Stop", "PenaltyCb", "Fork", "Join", "FinalUB", "Export"):
        if res["coverage"].get(act, [0, 0])[1] == 0:
            raise vlib.FrameworkError("vacuous GlobalLoop model: action %s never taken" % act)
    chk.add_tlc(res, "tlc global loop (callback grammar, export uses last LB/UB, termination)")
    plan = [
        dict(flavour="asan-ubsan", scen="glob", runs=(260, 8000), opts={"cb": 1, "globalDomain": 1, "varyScale": 10, "zeroAreaMovable": 1, "maxMovable": 14}),
        dict(flavour="rel", scen="glob", runs=(260, 8000), opts={"cb": 1, "globalDomain": 1, "varyScale": 10, "zeroAreaMovable": 1, "maxMovable": 20, "maxNets": 20}),
        # large designs: every cell area below 2^30 but their sum beyond 2^31 (and often in the band where a 32-bit sum turns negative)
        dict(flavour="rel", scen="glob", runs=(200, 6000), opts={"cb": 1, "globalDomain": 1, "hugeArea": 1, "maxMovable": 40, "utilLo": 0.2, "utilHi": 0.9,
                                                                 "multiRow": 0, "maxNets": 20, "maxFixed": 2}),
        # tiny cells: rows one unit high, sparse, many fixed cells and pads (total movable area comparable to the number of cells)
        dict(flavour="rel", scen="glob", runs=(200, 6000), opts={"cb": 1, "globalDomain": 1, "unitRows": 1, "utilHi": 0.12, "maxFixed": 10, "zeroAreaMovable": 1}),
    ]
    run_plan(chk, "C06", plan, nontrivial)
    chk.cov["rule"] = ("placeGlobal executions with a recording callback on seeded random circuits of the C06 domain (>= 1 free segment wider than twice the side "
                       "margin, fixed cells/obstructions anywhere, zero-area movable cells, nets of any degree, initial positions anywhere) and random accepted "
                       "parameter sets inside the numerically moderate box (all net models, cost models, reopt sizes, blendings -0.5..1.5, small maxNbSteps in half "
                       "of the runs); TLC checks every UpperBound exposure (centres inside the rows' bounding box), finiteness of every exposed coordinate, "
                       "the callback grammar, that the call returns, and the blend |1000 final - ((1000-B) LB + B UB)| <= 3000 per coordinate; non-trivial = last LB "
                       "and last UB differ by >= 6 units for some cell")
    chk.assumptions += ["the spec does not model the conjugate-gradient solver: the numeric content is checked on observed executions only (exploration)",
                        "blend is checked on coordinates below 4*10^5 (32-bit TLC integers)"]
    return chk.finish()


def replay(path):
    return tracecheck.replay_file(path)
