"""C07 Placement calls return or throw; never crash or invoke undefined behaviour."""
import os
import shutil

import tracecheck
import vlib
from checks.common import run_plan, first, all_of

LEVEL = "exploration"


def nontrivial(chk, st, rid, evs):
    rs = first(evs, "Reset")
    ends = all_of(evs, "EndReturn") + all_of(evs, "EndThrow")
    if rs and ends:
        key = "%s-%s-%s" % (st.get("name", st["scen"]), st["flavour"], rs.get("gseed"))
        chk.nontrivial(key)
        if "c07" in rs:
            chk.sample({"case": rs["c07"], "flavour": st["flavour"], "outcomes": [e["e"] for e in ends]}, limit=4)


def table(chk, flavour, cfg, out):
    results, d2, allruns, exe = tracecheck.cases_and_validate(chk, flavour, "record", out, cfg + "/" + flavour, module="TraceCircuit",
                                                              extra_args=["seed=%d" % chk.seed, "timeout=%d" % chk.pick(25, 300)])
    tracecheck.attribute(chk, results, "C07", exe, "det", flavour, d2)
    for rid, evs in allruns.items():
        chk.count()
        nontrivial(chk, {"scen": "c07", "flavour": flavour, "name": "table"}, rid, evs)
    shutil.rmtree(d2, ignore_errors=True)


def run(chk):
    cfg = "ShapeTable_" + chk.tier
    d = vlib.scratch("C07-emit")
    out = os.path.join(d, "cases.out")
    res = vlib.tlc_ok(vlib.tlc("ShapeTable", cfg=cfg, workers=1, stdout_path=out, timeout=600), cfg)
    chk.add_tlc(res, "tlc case table: shapes x magnitudes x variants")
    # assertion-enabled build with sanitizers, and the assertion-free optimised build with UBSan
    table(chk, "asan-ubsan", cfg, out)
    table(chk, "ubsan-rel", cfg, out)
    shutil.rmtree(d, ignore_errors=True)
    plan = [
        dict(flavour="asan-ubsan", scen="full", runs=(128, 8000), opts={"cb": 2, "globalDomain": 1, "varyScale": 10, "zeroAreaMovable": 1, "timeout": chk.pick(40, 300)}),
        dict(flavour="ubsan-rel", scen="det", runs=(208, 12000), opts={"cb": 2, "varyScale": 10, "maxMovable": 24, "timeout": chk.pick(40, 300)}),
        dict(flavour="dbg", scen="full", runs=(128, 8000), opts={"cb": 2, "globalDomain": 1, "varyScale": 10, "maxMovable": 16, "timeout": chk.pick(40, 300)}),
        # large designs (sum of cell areas between 2^31 and 2^32, every cell far below) and designs far from the origin
        dict(flavour="asan-ubsan", scen="full", runs=(64, 4000), opts={"cb": 2, "globalDomain": 1, "hugeArea": 1, "maxMovable": 30, "utilHi": 0.9, "multiRow": 0,
                                                                      "timeout": chk.pick(40, 300)}),
        dict(flavour="asan-ubsan", scen="det", runs=(96, 6000), opts={"cb": 2, "translate": 1, "maxMovable": 16, "timeout": chk.pick(40, 300)}),
        # large designs far beyond feasible density (an excess of several times 2^31 units of area), assertions enabled
        dict(flavour="dbg", scen="glob", runs=(64, 3000), opts={"cb": 2, "globalDomain": 1, "hugeArea": 6, "maxMovable": 30, "utilLo": 2.5, "utilHi": 6, "multiRow": 0,
                                                               "maxFixed": 3, "connectAll": 1, "timeout": chk.pick(40, 300)}),
        # unit-area cells filling the rows (saturated lines of bins in the rough legalizer)
        dict(flavour="asan-ubsan", scen="glob", runs=(96, 5000), opts={"cb": 2, "globalDomain": 1, "unitRows": 1, "utilLo": 0.8, "utilHi": 1.1, "maxMovable": 40,
                                                                      "multiRow": 0, "maxFixed": 2, "timeout": chk.pick(40, 300)}),
    ]
    run_plan(chk, "C07", plan, nontrivial)
    chk.cov["rule"] = ("every case of the TLC-emitted table (13 degenerate shapes x magnitudes 2^0, 2^10, 2^16, 2^20, 2^22 x variants; cell areas < 2^31) and seeded "
                       "random circuits, each executed through global placement + legalization + detailed placement (or legalize-only reference + detailed) in a "
                       "forked child under ASan+UBSan with assertions enabled, under UBSan with -O2 -DNDEBUG, and in a plain assertion-enabled build, with a "
                       "wall-clock budget; the child's fate is the last event of its trace and TLC refuses Abort / Sanitizer / Timeout; non-trivial = a call "
                       "ended (returned or threw); distinct by (case or seed, build flavour)")
    chk.assumptions += ["undefined behaviour that no sanitizer flags and that does not change an outcome is invisible",
                        "float division by zero is IEEE-defined and not counted (only integer division by zero is)"]
    return chk.finish()


def replay(path):
    return tracecheck.replay_file(path)
