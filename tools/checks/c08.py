"""C08 Placement is deterministic and independent of thread scheduling."""
import collections

import tracecheck
import vlib
from checks.common import run_plan, first, all_of

LEVEL = "model_checking"


def nontrivial(chk, st, rid, evs):
    rs = first(evs, "Reset")
    if not rs:
        return
    if st["scen"] == "sched":
        mode = None
        first_exit = collections.Counter()
        for e in evs:
            if e["e"] == "Schedule":
                mode = e["mode"]
            if e["e"] == "Solve" and e["phase"] == "exit" and e["order"] == 1:
                first_exit[(mode, e["model"])] += 1
        forced_ok = first_exit[("xfirst", "y")] == 0 and first_exit[("yfirst", "x")] == 0
        steps = sum(v for (m, _), v in first_exit.items() if m == "xfirst")
        d = chk.cov.setdefault("forced_schedules", {"lower_bound_steps_forced": 0, "order_not_realised": 0})
        d["lower_bound_steps_forced"] += steps
        if not forced_ok:
            d["order_not_realised"] += 1
        if steps >= 2 and len(all_of(evs, "EndReturn")) >= 4:
            chk.nontrivial("s%s-%s" % (st["flavour"], rs["gseed"]))
            chk.sample({"run": rid, "flavour": st["flavour"], "lb_steps": steps,
                        "first_to_finish_per_schedule": {"%s/%s" % k: v for k, v in sorted(first_exit.items())}}, limit=3)
    else:
        rets = all_of(evs, "EndReturn")
        if len(rets) >= 6:
            chk.nontrivial("r%s-%s" % (st["flavour"], rs["gseed"]))
            chk.sample({"run": rid, "jobs": ["%s:%s" % (e["obj"], e.get("wl")) for e in rets]}, limit=2)


def run(chk):
    res = vlib.tlc_ok(vlib.tlc("GlobalLoop", cfg="GlobalLoop_FALSE", workers=4, coverage=True, timeout=600), "fork/join")
    if res["violated"]:
        raise vlib.FrameworkError("GlobalLoop violates its own properties: %s" % res["violated"])
    chk.add_tlc(res, "tlc fork/join model: every interleaving of the two solver threads (ScheduleIndependent, NoRace, termination)")
    racy = vlib.tlc("GlobalLoop", cfg="GlobalLoop_TRUE", workers=4, timeout=600)
    if "NoRace" not in racy["violated"]:
        raise vlib.FrameworkError("non-vacuity: the deliberately racy variant of GlobalLoop was not rejected")
    chk.step("non-vacuity: racy variant rejected by TLC", violated=racy["violated"])
    plan = [
        dict(flavour="rel", exe="record_sched", scen="sched", runs=(64, 1500), opts={}, keep_events=True),
        dict(flavour="tsan", exe="record_sched", scen="sched", runs=(32, 600), opts={"maxMovable": 14, "maxSteps": 6}, keep_events=True),
        dict(flavour="rel", exe="record_sched", scen="runs", runs=(64, 1500), opts={}, keep_events=True),
        dict(flavour="asan-ubsan", exe="record_sched", scen="runs", runs=(32, 600), opts={}, keep_events=True),
    ]
    run_plan(chk, "C08", plan, nontrivial)
    fs = chk.cov.get("forced_schedules", {})
    if fs.get("order_not_realised", 0) > 0:
        raise vlib.FrameworkError("a forced completion order was not realised by the hook harness: %s" % fs)
    chk.cov["rule"] = ("sched: per seeded circuit placeGlobal runs under 6 schedules of the two parallel solves (free, x-first, y-first, alternating, random, random "
                       "delays), forced through the COLOQUINTE_VERIF hook, in one process on all cores and in a second process pinned to a single core, and under ThreadSanitizer; runs: global/legalize/detailed "
                       "jobs on copies, with and without callback, in two processes with different job orders and an unrelated job first; TLC checks via its "
                       "per-run memo that equal (stage, input) give identical coordinates and orientations, that solves are properly nested between callbacks, and "
                       "refuses ThreadSanitizer reports; non-trivial = >= 2 forced lower-bound steps and >= 4 completed schedules (sched) / >= 6 completed jobs (runs)")
    chk.assumptions += ["ThreadSanitizer's ability to observe races in the executed schedules", "the hook is compiled in (-DCOLOQUINTE_VERIF); results are bitwise equal with it"]
    return chk.finish()


def replay(path):
    return tracecheck.replay_file(path)
