"""C09 Wirelength is geometrically exact and incrementally consistent."""
import json
import os

import tracecheck
import vlib
from checks.common import run_plan, first, all_of, replay_cases, replay_case_file

LEVEL = "model_checking"


def nontrivial(chk, st, rid, evs):
    rs = first(evs, "Reset")
    if rs and rs["circ"]["nets"] and any(e["o"] != "N" for e in rs["circ"]["cells"]):
        chk.nontrivial("%s-g%s" % (st["scen"], rs["gseed"]))
        incr = all_of(evs, "Incr")
        if incr:
            chk.sample({"run": rid, "axis": incr[0]["axis"], "subset": incr[0]["sub"], "values": [e["val"] for e in incr][:14]}, limit=5)


def run(chk):
    replay_cases(chk, "OrientCases", "OrientCases", "orientation x size x pin offset table")
    replay_cases(chk, "IncrHpwl", "IncrHpwl_" + chk.tier, "incremental model histories")
    plan = [
        dict(flavour="asan-ubsan", scen="incr", runs=(600, 20000), opts={"maxNets": 14, "varyScale": 1, "maxMovable": 9}),
        dict(flavour="rel", scen="det", runs=(300, 8000), opts={"cb": 1, "maxNets": 14, "varyScale": 1}),
        dict(flavour="rel", scen="incr", runs=(400, 10000), opts={"maxNets": 14, "maxMovable": 9, "translate": 1}),
        # histories of the public mutators: hpwl(), placedWidth/Height of the state the calls define (abstract data type in PlaceAPI.tla)
        dict(flavour="asan-ubsan", exe="record_proto", scen="api", runs=(300, 8000), opts={}),
    ]
    run_plan(chk, "C09", plan, nontrivial)
    chk.cov["rule"] = ("(a) every orientation x w,h in 1..3 x pin offset in -1..4 (exhaustive); (b) every update history of the IncrHpwl spec scope "
                       "(netlists of up to 2 of 8 net shapes incl. repeated cells/empty/single-pin nets, 5 subsets, 3 orientation vectors, both axes) "
                       "replayed into real IncrNetModel objects; (c) seeded random circuits: incremental models under random updates and every "
                       "event of placeDetailed traces, wirelength recomputed by TLC through the generator-based orientation algebra; (d) random histories of the "
                       "14 public mutators of Circuit with logged arguments (valid and invalid): TLC computes the state the calls define and compares hpwl() and the placed sizes; "
                       "non-trivial random case = has nets and a non-N orientation; replayed spec cases all count as distinct")
    chk.cov["exhaustive"] = False
    return chk.finish()


def replay(path):
    data = json.load(open(path))
    if data["replay"].get("kind") == "trace":
        return tracecheck.replay_file(path)
    return replay_case_file(path, "C09")
