"""C10 Busy-circuit protocol and exception safety of placement calls."""
import tracecheck
import vlib
from checks.common import run_plan, first, all_of

LEVEL = "fault_enumeration"


def nontrivial(chk, st, rid, evs):
    throws = all_of(evs, "CbThrow")
    setters = all_of(evs, "Setter")
    if throws and setters:
        rs = first(evs, "Reset")
        chk.nontrivial("p%s" % rs["gseed"])
        chk.cov["fault_points"] = chk.cov.get("fault_points", 0) + len(throws)
        chk.cov["setter_attempts"] = chk.cov.get("setter_attempts", 0) + len(setters)
        b = first(evs, "Begin")
        chk.sample({"run": rid, "stage": b["stage"], "callback_indices_thrown_at": [t["idx"] for t in throws][:12],
                    "setter_outcomes_inside_callbacks_then_after": [s["outcome"] for s in setters][:16]}, limit=3)


def apalache_inductive(chk):
    """Unbounded safety of the protocol: Apalache discharges Init => IndInv and IndInv /\\ Next => IndInv' (spec/apalache/ProtocolInd.tla)."""
    import os
    import shutil
    import subprocess
    d = vlib.scratch("C10-apalache")
    shutil.copy(os.path.join(vlib.SPEC, "apalache", "ProtocolInd.tla"), d)
    ok = []
    for init, length in (("Init", 0), ("IndInit", 1)):
        try:
            p = subprocess.run(["apalache-mc", "check", "--init=" + init, "--inv=IndInv", "--length=%d" % length, "ProtocolInd.tla"],
                               cwd=d, stdout=subprocess.PIPE, stderr=subprocess.STDOUT, text=True, timeout=300)
            ok.append("EXITCODE: OK" in p.stdout)
        except (subprocess.TimeoutExpired, FileNotFoundError):
            ok.append(None)
    shutil.rmtree(d, ignore_errors=True)
    if False in ok:
        raise vlib.FrameworkError("Apalache: IndInv of ProtocolInd.tla is not inductive any more")
    chk.step("apalache inductive invariant of the protocol (unbounded number of calls, callbacks and setters)",
             base_case=ok[0], inductive_step=ok[1])
    chk.cov["apalache_obligations_discharged"] = sum(1 for v in ok if v)


def run(chk):
    res = vlib.tlc_ok(vlib.tlc("PlaceProtocol", cfg="PlaceProtocol_TRUE", workers=8, coverage=True, timeout=900), "protocol")
    if res["violated"]:
        raise vlib.FrameworkError("protocol model violates its own properties: %s" % res["violated"])
    for act in ("Begin", "RejectParams", "CbThrow", "EndThrow", "Setter", "EndReturn"):
        if res["coverage"].get(act, [0, 0])[1] == 0:
            raise vlib.FrameworkError("vacuous protocol model: action %s never taken" % act)
    chk.add_tlc(res, "tlc protocol model (all interleavings of calls, callbacks, throws, setters; invariants + liveness)")
    apalache_inductive(chk)
    plan = [
        dict(flavour="asan-ubsan", exe="record_proto", scen="proto", runs=(90, 2400), opts={}),
        dict(flavour="rel", exe="record_proto", scen="proto", runs=(60, 1200), opts={}),
    ]
    run_plan(chk, "C10", plan, nontrivial)
    chk.cov["rule"] = ("fault enumeration: for each seeded instance and stage a clean run counts the callbacks N, then one execution per k < N throws from "
                       "the k-th callback; all seven structural setters are attempted (with arguments that would change the circuit) inside callbacks and after "
                       "every end of a call (return, callback exception, infeasible legalization, rejected parameters), followed by a further placement call; "
                       "every fifth instance is infeasible; TLC validates every event against the shared setter-outcome contract; non-trivial = instance with "
                       ">= 1 fault point and setter attempts")
    return chk.finish()


def replay(path):
    return tracecheck.replay_file(path)
