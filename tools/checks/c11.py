"""C11 Legalization does not move an already legal single-row placement."""
import tracecheck
from checks.common import run_plan, first, all_of, moved, small_scope

LEVEL = "model_checking"


def nontrivial(chk, st, rid, evs):
    rs = first(evs, "Reset")
    rets = all_of(evs, "EndReturn")
    if rs and len(rets) >= 1 and st["scen"] == "legc":
        reb = first(evs, "Rebase")
        if reb and sum(1 for e in reb["circ"]["cells"] if not e["f"]) >= 2:
            chk.nontrivial("c%s" % rs["gseed"])
        return
    if rs and len(rets) == 2 and sum(1 for e in rs["circ"]["cells"] if not e["f"]) >= 2:
        chk.nontrivial("g%s" % rs["gseed"])
        chk.sample({"run": rid, "movable": sum(1 for e in rs["circ"]["cells"] if not e["f"]), "ow": rs["params"]["ow"],
                    "moved_by_first": len(moved(rs["circ"]["cells"], rets[0]["circ"]["cells"])),
                    "moved_by_second": len(moved(rets[0]["circ"]["cells"], rets[1]["circ"]["cells"]))}, limit=5)


def run(chk):
    plan = [
        # ordering weights inside [0,1]: any movement is a violation
        dict(flavour="asan-ubsan", scen="leg", runs=(1200, 30000), opts={"cb": 0, "singleRowOnly": 1, "turned": 0, "wideOrdering": 0, "varyScale": 8}),
        # the whole accepted range [-1,2]
        dict(flavour="rel", scen="leg", runs=(800, 20000), opts={"cb": 0, "singleRowOnly": 1, "turned": 0, "wideOrdering": 1, "varyScale": 8}),
    ]
    plan += [
        # directly constructed legal placements: dense rows, exactly full segments, obstructions, polarities
        dict(flavour="asan-ubsan", scen="legc", runs=(1000, 25000), opts={"cb": 0, "singleRowOnly": 1, "turned": 0, "wideOrdering": 0, "varyScale": 8,
                                                                          "utilLo": 0.5, "utilHi": 1.6, "maxMovable": 14}),
    ]
    plan += [
        # large coordinates (up to 2^20): wide cells, far segments of the same row; products width x displacement exceed 2^31
        dict(flavour="rel", scen="legc", runs=(600, 15000), opts={"cb": 0, "singleRowOnly": 1, "turned": 0, "wideOrdering": 0, "scaleShift": 14,
                                                                 "utilLo": 0.3, "utilHi": 1.2, "maxMovable": 10}),
        dict(flavour="rel", scen="leg", runs=(400, 10000), opts={"cb": 0, "singleRowOnly": 1, "turned": 0, "wideOrdering": 0, "scaleShift": 14}),
    ]
    plan += [
        # constructed legal placements with turned unrestricted cells and all four polarities on single-row cells
        dict(flavour="rel", scen="legc", runs=(600, 15000), opts={"cb": 0, "singleRowOnly": 1, "turned": 1, "wideOrdering": 0, "varyScale": 8,
                                                                 "utilLo": 0.4, "utilHi": 1.3, "maxMovable": 12}),
    ]
    if not chk.quick:
        small_scope(chk, "C11", lambda ch, runs: [ch.count() for _ in runs])
    run_plan(chk, "C11", plan, nontrivial)
    chk.cov["rule"] = ("legalize; legalize on random circuits whose movable cells are all one row high (obstructions, split rows, polarities, "
                       "|v| < 2^20, random accepted parameter sets); TLC checks that the second call (whose input it has checked to be Legal) "
                       "moves nothing; non-trivial = both calls returned and >= 2 movable cells; distinct by generator seed")
    return chk.finish()


def replay(path):
    return tracecheck.replay_file(path)
