"""C12 Single-row legalizer is order-preserving, optimal and reports exact costs."""
import json

import tracecheck
import vlib
from checks.common import run_plan, first, all_of, replay_cases, replay_case_file

LEVEL = "model_checking"


def nontrivial(chk, st, rid, evs):
    e = first(evs, "RowHist")
    if e and len(e["cells"]) >= 3 and any(c != [] for c in e["costs"]):
        chk.nontrivial("h%s" % rid)
        chk.sample({"segment": [e["lo"], e["hi"]], "cells": e["cells"][:6], "placement": e["pl"][:6], "cost_digits_base_2^15": e["costs"][:6]}, limit=3)


def run(chk):
    # design level + spec -> code: the transcription refines the contract on the whole scope; every reachable
    # history is replayed into a real RowLegalizer (contract checks decide, equality with the transcription is informational)
    res = vlib.tlc_ok(vlib.tlc("RowCriterion", workers=8, timeout=600), "criterion self-check")
    if res["violated"]:
        raise vlib.FrameworkError("optimality criterion disagrees with brute force: %s" % res["violated"])
    chk.add_tlc(res, "tlc unit-move optimality criterion == brute force (all placements of all tiny instances)")
    replay_cases(chk, "RowLegalizer", "RowLegalizer_%s_TRUE" % chk.tier, "all insertion histories in the %s scope" % chk.tier,
                 workers=16, xmx="12g")
    plan = [dict(flavour="asan-ubsan", exe="record_algo", module="TraceAlgo", scen="rowhist", runs=(1500, 40000), opts={})]
    run_plan(chk, "C12", plan, nontrivial)
    chk.cov["rule"] = ("exhaustive: every history of insertions (w 1..3, targets in a window around the segment, interleaved cost queries) in the tier's scope "
                       "(quick: length<=5, begin 0..1, 3 cells; thorough: the property's own bounds length<=7, 4 cells, targets -3..10), TLC checks the transcription "
                       "against the brute-force contract and every history is replayed into a real RowLegalizer; random: histories of up to 40 cells at "
                       "coordinates up to 2^22 validated by TLC with the unit-move optimality criterion and base-2^15 cost sums; non-trivial random "
                       "history = >= 3 cells and a non-zero cost")
    chk.cov["exhaustive"] = True
    return chk.finish()


def replay(path):
    data = json.load(open(path))
    if data["replay"].get("kind") == "trace":
        return tracecheck.replay_file(path)
    return replay_case_file(path, "C12")
