"""C13 Transportation solver returns a feasible minimum-cost plan."""
import os
import shutil

import tracecheck
import vlib
from checks.common import run_plan, first, all_of

LEVEL = "model_checking"


def nontrivial(chk, st, rid, evs):
    e = first(evs, "Transport")
    if e and len(e["cap"]) >= 2 and len(e["dem"]) >= 2:
        chk.nontrivial("t%s-%s" % (st.get("name", st["scen"]), rid))
        chk.sample({"capacities": e["cap"], "demands": e["dem"][:8], "plan_row0": e["alloc"][0][:8], "assignment": e["assign"][:8]}, limit=3)


def spec_instances(chk, cfg, name, flavour="asan-ubsan"):
    d = vlib.scratch("C13-emit")
    out = os.path.join(d, "cases.out")
    res = vlib.tlc_ok(vlib.tlc("Transport", cfg=cfg, workers=16, stdout_path=out, timeout=3000), name)
    chk.add_tlc(res, "tlc enumeration of " + name)
    results, d2, allruns, exe = tracecheck.cases_and_validate(chk, flavour, "record_algo", out, name)
    tracecheck.attribute(chk, results, "C13", exe, "transport", flavour, d2, module="TraceAlgo", exe_name="record_algo")
    for rid, evs in allruns.items():
        chk.count()
        nontrivial(chk, {"scen": "transport", "name": cfg}, rid, evs)
    shutil.rmtree(d, ignore_errors=True)
    shutil.rmtree(d2, ignore_errors=True)


def ssp_model(chk):
    """Design level: the nondeterministic successive-shortest-path model keeps every partial plan optimal; the real solver's
    plan must be one of the model's final plans (implementation conformance, informational)."""
    import json
    cfg = "SspImpl_" + chk.tier
    d = vlib.scratch("C13-ssp")
    out = os.path.join(d, "finals.out")
    res = vlib.tlc_ok(vlib.tlc("SspImpl", cfg=cfg, workers=16, coverage=True, stdout_path=out, timeout=3000, xmx="10g"), cfg)
    if res["violated"]:
        raise vlib.FrameworkError("SspImpl violates its own invariants: %s" % res["violated"])
    if res["coverage"].get("Augment", [0, 0])[1] == 0:
        raise vlib.FrameworkError("vacuous SspImpl model")
    chk.add_tlc(res, "tlc successive-shortest-path model (partial optimality, final optimum == brute force, progress)")
    exe = vlib.build_exe("asan-ubsan", "replay")
    rc, so, se = vlib.run_exe(exe, stdin_path=out, timeout=3000)
    if rc != 0:
        raise vlib.FrameworkError("replayer failed on SspImpl finals: %s" % (se or "")[-400:])
    inst = {}
    for line in so.splitlines():
        if line.startswith("{") and "sspkey" in line:
            e = json.loads(line)
            inst[e["sspkey"]] = inst.get(e["sspkey"], False) or e["match"]
    if not inst:
        raise vlib.FrameworkError("no SspImpl final plan was replayed")
    ok = sum(1 for v in inst.values() if v)
    chk.cov.setdefault("impl_conformance", {})[cfg] = {"instances": len(inst), "real_plan_among_model_finals": ok}
    chk.step("real solver's plan among the model's final plans", instances=len(inst), conformant=ok)
    shutil.rmtree(d, ignore_errors=True)


def run(chk):
    ssp_model(chk)
    # self-check of the contract: negative-cycle criterion == brute-force minimum over all feasible plans
    res = vlib.tlc_ok(vlib.tlc("Transport", cfg="Transport_oracle", workers=16, timeout=1200), "oracle")
    if res["violated"]:
        raise vlib.FrameworkError("optimality criterion disagrees with brute force: %s" % res["violated"])
    chk.add_tlc(res, "tlc criterion == brute-force minimum on every feasible plan of every 2x2 instance")
    if not chk.quick:
        res = vlib.tlc_ok(vlib.tlc("Transport", cfg="Transport_oracle3", workers=16, timeout=3000), "oracle3")
        if res["violated"]:
            raise vlib.FrameworkError("optimality criterion disagrees with brute force: %s" % res["violated"])
        chk.add_tlc(res, "tlc criterion == brute-force minimum, 3 sinks x 2 sources")
    spec_instances(chk, "Transport_emit", "all 2x2 problems (cap 1..3, demand 1..2, cost 0..3)")
    spec_instances(chk, "Transport_emit3", "all 3x3 problems (cap 1..2, demand 1..2, cost 0..1)")
    plan = [
        dict(flavour="asan-ubsan", exe="record_algo", module="TraceAlgo", scen="transport", runs=(1500, 30000), opts={"big": 0}),
        dict(flavour="rel", exe="record_algo", module="TraceAlgo", scen="transport", runs=(500, 15000), opts={"big": 1}),
        dict(flavour="asan-ubsan", exe="record_algo", module="TraceAlgo", scen="transport", runs=(300, 8000), opts={"big": 1}),
    ]
    run_plan(chk, "C13", plan, nontrivial)
    chk.cov["rule"] = ("exhaustive tiny problems enumerated by TLC and solved by the real TransportationProblem; seeded random problems with up to 16 sinks / 60 "
                       "sources, integer and float costs (ties, zeros, large spreads, distance-like), balanced / slack / after increaseCapacity(), quantities also multiplied by 2^27..2^36 (logged in that unit); each recorded "
                       "plan is checked by TLC for feasibility, optimality (potential certificate over the residual graph) and arg-max assignment; "
                       "non-trivial = at least 2 sinks and 2 sources")
    chk.assumptions += ["optimality certificate (sink potentials) is supplied by the harness and only *checked* by TLC; soundness rests on LP duality",
                        "the negative-cycle criterion itself is checked against brute force on the tiny scope"]
    return chk.finish()


def replay(path):
    return tracecheck.replay_file(path)
