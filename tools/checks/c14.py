"""C14 One-dimensional transportation is optimal and its rounding is memory-safe."""
import os
import shutil

import tracecheck
import vlib
from checks.common import run_plan, first, all_of

LEVEL = "model_checking"


def nontrivial(chk, st, rid, evs):
    e = first(evs, "T1d")
    if e and len(e["u"]) >= 2 and len(e["v"]) >= 2 and e["fate"] == "ok":
        chk.nontrivial("t%s-%s" % (st.get("name", st["scen"]), rid))
        chk.sample({"u": e["u"][:8], "v": e["v"], "s": e["s"][:8], "d": e["d"], "assign": e["assign"][:8]}, limit=3)


def sweep_model(chk):
    """Design level: the sweep of Transportation1dSolver transcribed action by action; TLC checks termination, feasibility, minimum cost
    and the rounding contract on every sorted positive tiny instance; every final state is replayed into a real solver (implementation
    conformance, informational: the contract is what decides)."""
    import json
    cfg = "T1dImpl_" + chk.tier
    d = vlib.scratch("C14-sweep")
    out = os.path.join(d, "finals.out")
    res = vlib.tlc_ok(vlib.tlc("T1dImpl", cfg=cfg, workers=16, coverage=True, stdout_path=out, timeout=3000, xmx="10g"), cfg)
    if res["violated"]:
        raise vlib.FrameworkError("T1dImpl violates its own invariants: %s" % res["violated"])
    for act in ("Push", "PushOnce", "EndPush", "Flush"):
        if res["coverage"].get(act, [0, 0])[1] == 0:
            raise vlib.FrameworkError("vacuous T1dImpl model: action %s never taken" % act)
    chk.add_tlc(res, "tlc sweep model (termination, plan feasible and of minimum cost, rounding contract, queue discipline)")
    exe = vlib.build_exe("asan-ubsan", "replay")
    rc, so, se = vlib.run_exe(exe, stdin_path=out, timeout=3000)
    if rc != 0:
        chk.violation("the real solver died on the final states of the sweep model (rc=%s): %s" % (rc, (se or "")[-600:]),
                      {"kind": "cases", "module": "T1dImpl", "cfg": cfg}, "replay-crash")
        shutil.rmtree(d, ignore_errors=True)
        return
    summ = [json.loads(l) for l in so.splitlines() if l.startswith("{") and '"summary"' in l]
    if not summ or summ[0]["impl_seen"] == 0:
        raise vlib.FrameworkError("no T1dImpl final state was replayed")
    chk.cov.setdefault("impl_conformance", {})[cfg] = {"instances": summ[0]["impl_seen"], "real_plan_and_assignment_equal_model": summ[0]["impl_same"]}
    chk.step("real sweep == transcribed sweep (plan and assignment)", instances=summ[0]["impl_seen"], conformant=summ[0]["impl_same"])
    shutil.rmtree(d, ignore_errors=True)


def run(chk):
    sweep_model(chk)
    d = vlib.scratch("C14-emit")
    out = os.path.join(d, "cases.out")
    cfg = "Transport1d_" + chk.tier
    res = vlib.tlc_ok(vlib.tlc("Transport1d", cfg=cfg, workers=16, stdout_path=out, timeout=3000, xmx="10g"), cfg)
    chk.add_tlc(res, "tlc enumeration of all tiny 1-D instances (" + cfg + ")")
    results, d2, allruns, exe = tracecheck.cases_and_validate(chk, "asan", "record_algo", out, cfg)
    tracecheck.attribute(chk, results, "C14", exe, "t1d", "asan", d2, module="TraceAlgo", exe_name="record_algo")
    for rid, evs in allruns.items():
        chk.count()
        nontrivial(chk, {"scen": "t1d", "name": cfg}, rid, evs)
    shutil.rmtree(d, ignore_errors=True)
    shutil.rmtree(d2, ignore_errors=True)
    plan = [dict(flavour="asan", exe="record_algo", module="TraceAlgo", scen="t1d", runs=(2500, 60000), opts={})]
    run_plan(chk, "C14", plan, nontrivial)
    chk.cov["rule"] = ("exhaustive: every tiny instance (positions 0..3, 3 sources x 2 sinks, supplies 0..2, demands 0..3 in the quick tier) enumerated by TLC, "
                       "solved and rounded by the real Transportation1d under AddressSanitizer; random: unsorted/duplicate positions up to 10^8, zero supplies and "
                       "demands, exact balance / slack / balanceDemand(); TLC checks plan feasibility, optimality (potential certificate), the rounding rule "
                       "relative to the plan, result length; an ASan report or abort is an event the specification refuses; non-trivial = >= 2 sources and sinks")
    chk.assumptions += ["memory safety is observed through AddressSanitizer in a forked child (an error becomes a Sanitizer event)"]
    return chk.finish()


def replay(path):
    return tracecheck.replay_file(path)
