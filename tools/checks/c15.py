"""C15 Free row space is exactly the rows minus fixed obstructions."""
import json

import tracecheck
from checks.common import run_plan, first, all_of, replay_cases, replay_case_file

LEVEL = "model_checking"


def nontrivial(chk, st, rid, evs):
    fr = all_of(evs, "Free")
    chk.count(max(0, len(fr) - 1))   # one evaluation per row whose free space was computed (run_plan counts one per run)
    for e in fr:
        if len(e["obs"]) >= 1 and len(e["segs"]) >= 1:
            chk.nontrivial("g%s-%d" % (rid, e["idx"]))
            chk.sample({"row": e["row"], "obstacles": e["obs"][:4], "segments": e["segs"]}, limit=4)


def run(chk):
    if chk.quick:
        replay_cases(chk, "FreeSpace", "FreeSpace_quick", "all configurations of <=2 blocking rectangles")
        replay_cases(chk, "FreeSpace", "FreeSpace_flags", "1 rectangle x every fixed/obstruction flag combination")
    else:
        replay_cases(chk, "FreeSpace", "FreeSpace_thorough", "all configurations of <=3 blocking rectangles", workers=16, xmx="12g")
        replay_cases(chk, "FreeSpace", "FreeSpace_flags2", "<=2 rectangles x every fixed/obstruction flag combination", workers=16)
    plan = [dict(flavour="asan-ubsan", scen="free", runs=(400, 10000), opts={"varyScale": 1}),
            # the free rows of the state defined by a history of public mutator calls (flags as given by the caller, any call order)
            dict(flavour="asan-ubsan", exe="record_proto", scen="api", runs=(300, 8000), opts={})]
    run_plan(chk, "C15", plan, nontrivial)
    chk.cov["rule"] = ("exhaustive: every multiset of rectangles with corners on {before, at, inside, inside, at, after} x {below, at, middle, at, above} "
                       "of one row (degenerate ones included), TLC checks endpoint-based = column-based free space and the replayer compares "
                       "Row::freespace and Circuit::computeRows (cells with every fixed/obstruction flag, extra obstacles) with the expected segment set; "
                       "random: rows/obstacles at coordinates up to 2^22 recorded and validated endpoint-wise by TLC; the rows used by the consumers "
                       "(Circuit::computeRows, Legalizer::fromIspdCircuit, DetailedPlacement::fromIspdCircuit after legalization) compared with the free space TLC "
                       "computes from the circuit; computeRows() after every call of random histories of the 14 public mutators, against the state the calls define")
    chk.cov["exhaustive"] = True
    return chk.finish()


def replay(path):
    data = json.load(open(path))
    if data["replay"].get("kind") == "trace":
        return tracecheck.replay_file(path)
    return replay_case_file(path, "C15")
