"""C16 Density bins account for all free area and every cell is in one bin."""
import os
import shutil

import tracecheck
import vlib
from checks.common import run_plan, first, all_of

LEVEL = "model_checking"


def nontrivial(chk, st, rid, evs):
    hs = all_of(evs, "Hier")
    if hs:
        ops = [e["op"] for e in hs if not e["skipped"]]
        if len(ops) >= 3 and len(hs[0]["demands"]) >= 2:
            chk.nontrivial("d%s-%s" % (st.get("name", st["scen"]), rid))
            last = hs[-1]
            chk.sample({"regions": last["regions"][:4], "ops": ops, "levels": [last["lx"], last["ly"]], "limX": last["limX"],
                        "bins": [[b["i"], b["j"], b["cap"], b["cells"]] for b in last["bins"][:6]]}, limit=3)
    gs = all_of(evs, "Grid")
    if gs and len(gs[0]["bins"]) >= 2:
        chk.nontrivial("g%s" % rid)


def bisect_model(chk):
    """Implementation layer: the bisection rule of the rough legalizer transcribed as pure operators; TLC checks its design properties on
    every small instance and every instance is replayed into the real functions (exposed by the COLOQUINTE_VERIF hook)."""
    import json
    cfg = "BisectImpl_" + chk.tier
    d = vlib.scratch("C16-bisect")
    out = os.path.join(d, "cases.out")
    res = vlib.tlc_ok(vlib.tlc("BisectImpl", cfg=cfg, workers=16, stdout_path=out, timeout=3000, xmx="10g"), cfg)
    if res["violated"]:
        raise vlib.FrameworkError("BisectImpl violates its own invariants: %s" % res["violated"])
    chk.add_tlc(res, "tlc bisection rule (threshold split, stable when nothing overflows, boundary moves away from the overflow, larger overflow never grows, "
                     "no dumping into a bin without capacity, a fit is found when one exists)")
    exe = vlib.build_exe("asan-ubsan", "replay")
    rc, so, se = vlib.run_exe(exe, stdin_path=out, timeout=3000)
    if rc != 0:
        chk.violation("the real split functions died on the instances of the bisection model (rc=%s): %s" % (rc, (se or "")[-600:]),
                      {"kind": "cases", "module": "BisectImpl", "cfg": cfg}, "replay-crash")
        shutil.rmtree(d, ignore_errors=True)
        return
    summ = [json.loads(l) for l in so.splitlines() if l.startswith("{") and '"summary"' in l]
    if not summ or summ[0]["impl_seen"] == 0:
        raise vlib.FrameworkError("no BisectImpl instance was replayed")
    chk.cov.setdefault("impl_conformance", {})[cfg] = {"instances": summ[0]["impl_seen"], "real_split_equals_model": summ[0]["impl_same"]}
    chk.step("real findIdealSplitPos/findConstrainedSplitPos == transcription", instances=summ[0]["impl_seen"], conformant=summ[0]["impl_same"])
    shutil.rmtree(d, ignore_errors=True)


def run(chk):
    bisect_model(chk)
    cfg = "DensityHier_" + chk.tier
    d = vlib.scratch("C16-emit")
    out = os.path.join(d, "cases.out")
    res = vlib.tlc_ok(vlib.tlc("DensityHier", cfg=cfg, workers=16, coverage=True, stdout_path=out, timeout=3000, xmx="10g"), cfg)
    if res["violated"]:
        raise vlib.FrameworkError("DensityHier violates its own invariants: %s" % res["violated"])
    for act in ("RefineX", "RefineY", "CoarsenX", "CoarsenY", "Move"):
        if res["coverage"].get(act, [0, 0])[1] == 0:
            raise vlib.FrameworkError("vacuous DensityHier model: %s never taken" % act)
    chk.add_tlc(res, "tlc hierarchy model: all interleavings of refine/coarsen/move (tiling, partition, aggregation)")
    results, d2, allruns, exe = tracecheck.cases_and_validate(chk, "asan-ubsan", "record_algo", out, cfg)
    tracecheck.attribute(chk, results, "C16", exe, "density", "asan-ubsan", d2, module="TraceAlgo", exe_name="record_algo")
    for rid, evs in allruns.items():
        chk.count()
        nontrivial(chk, {"scen": "density", "name": cfg}, rid, evs)
    shutil.rmtree(d, ignore_errors=True)
    shutil.rmtree(d2, ignore_errors=True)
    plan = [
        dict(flavour="asan-ubsan", exe="record_algo", module="TraceAlgo", scen="density", runs=(700, 30000), opts={}),
        dict(flavour="rel", exe="record_algo", module="TraceAlgo", scen="density", runs=(400, 20000), opts={}),
        # large designs: every length x 2^12 (single bins below 2^31 units of area, coarser views beyond), logged back in the small units
        dict(flavour="rel", exe="record_algo", module="TraceAlgo", scen="density", runs=(300, 10000), opts={"big": 1}),
        dict(flavour="asan-ubsan", exe="record_algo", module="TraceAlgo", scen="density", runs=(100, 4000), opts={"big": 1}),
        dict(flavour="asan-ubsan", scen="grid", runs=(600, 15000), opts={"globalDomain": 1, "varyScale": 4, "turned": 0}),
    ]
    run_plan(chk, "C16", plan, nontrivial)
    chk.cov["rule"] = ("design: every interleaving of refineX/refineY/coarsenX/coarsenY/move on small grids, each history executed by the real object; random: "
                       "regions with gaps and cuts, bin sizes, demands with zeros, float targets inside/outside/coincident, random accepted rough-legalization "
                       "parameter sets and all six cost models, random sequences of run/refine/improve/refineX/Y/coarsenX/Y/refineFully/coarsenFully; after every "
                       "operation TLC checks tiling, capacity = free area inside each bin, totals, partition of the non-zero cells, coordinates inside the bin; "
                       "grids built from circuits are checked against free row space minus margin computed by TLC; non-trivial = >= 3 executed operations")
    return chk.finish()


def replay(path):
    return tracecheck.replay_file(path)
