"""C17 Continuous wirelength solver honours real-valued net weights."""
import tracecheck
from checks.common import run_plan, first, all_of

LEVEL = "exploration"


def nontrivial(chk, st, rid, evs):
    b = first(evs, "AlgoBegin")
    if not b:
        return
    nets = b["inst"]["nets"]
    if any(n["w4"] < 4 for n in nets) and len(all_of(evs, "NetScale")) >= 9:
        chk.nontrivial("n%s-%s" % (st["flavour"], rid))
        s = first(evs, "NetSolve")
        chk.sample({"cells": b["inst"]["n"], "nets": [[n["w4"], [[p["c"], p["o4"]] for p in n["pins"]]] for n in nets][:5],
                    "star_solution_x128": s["x0"] if s else None, "net_model": b["inst"]["model"]}, limit=3)


def run(chk):
    plan = [
        dict(flavour="asan-ubsan", exe="record_algo", module="TraceAlgo", scen="netw", runs=(1000, 25000), opts={}),
        dict(flavour="rel", exe="record_algo", module="TraceAlgo", scen="netw", runs=(1000, 25000), opts={}),
        # the net weights the circuit stores are those the caller gave (setNetWeights / addNet / setNets histories)
        dict(flavour="asan-ubsan", exe="record_proto", scen="api", runs=(200, 5000), opts={}),
    ]
    run_plan(chk, "C17", plan, nontrivial)
    chk.cov["rule"] = ("seeded small net lists (1..6 cells, nets of degree 2..4, fixed pins, dyadic offsets k/4, dyadic weights 1/4..2 incl. values below 1, "
                       "penalties with targets and cutoffs, all four net models, solver tolerances 1e-4 / 1e-6), each built through one of the three public paths "
                       "(addNet with fixed pins as cell -1; addNet with minPin/maxPin; NetModel::xTopology of a Circuit with setNetWeights): (0) TLC compares the net "
                       "list held by the built model, pins and weights, with the instance (also with all weights / 8); (a) solveStar, solve and solveWithPenalty are "
                       "re-run with all weights and penalty strengths scaled by 2^k (k = -24, -16, -10, -3..4, 10, 20): TLC compares the float bit patterns (must be identical) and by "
                       "2.5 / 7 (within tolerance on the linear star model; later steps only for the continuous clique model); (b) TLC evaluates the gradient "
                       "of the documented quadratic at the returned star solution in fixed point and checks stationarity; non-trivial = some weight below 1")
    chk.assumptions += ["the specification does not model the conjugate-gradient iteration: exploration with a TLA+ oracle",
                        "bitwise comparison is done within one build flavour (same compiler and flags)"]
    return chk.finish()


def replay(path):
    return tracecheck.replay_file(path)
