"""C18 Cell expansion respects density caps and never touches fixed cells."""
import tracecheck
from checks.common import run_plan, first, all_of

LEVEL = "model_checking"


def nontrivial(chk, st, rid, evs):
    for e in all_of(evs, "Expand"):
        chk.cov["expansion_calls"] = chk.cov.get("expansion_calls", 0) + 1
        if e["kind"] == "congestion":
            if any(v != 4 for v in e["res4"]) and any(c["f"] for c in e["before"]["cells"]):
                chk.nontrivial("c%s-%s" % (st["flavour"], rid))
                chk.sample({"kind": "congestion", "regions": e["regions"], "factors_x4": e["res4"]}, limit=2)
        else:
            wb = [c["w"] for c in e["before"]["cells"]]
            wa = [c["w"] for c in e["after"]["cells"]]
            if wb != wa:
                chk.nontrivial("%s%s-%s" % (e["kind"][0], st["flavour"], rid))
                chk.sample({"kind": e["kind"], "p64": e["p64"], "m2": e["m2"], "cap64": e.get("cap64"), "widths_before": wb[:10], "widths_after": wa[:10]}, limit=4)


def tiny_scope(chk):
    import os
    import shutil
    import vlib
    cfg = "ExpansionCases_" + chk.tier
    d = vlib.scratch("C18-emit")
    out = os.path.join(d, "cases.out")
    res = vlib.tlc_ok(vlib.tlc("ExpansionCases", cfg=cfg, workers=16, stdout_path=out, timeout=3000, xmx="10g"), cfg)
    chk.add_tlc(res, "tlc enumeration of tiny expansion problems (" + cfg + ")")
    results, d2, allruns, exe = tracecheck.cases_and_validate(chk, "asan-ubsan", "record", out, cfg, module="TraceCircuit", extra_args=["timeout=60"])
    tracecheck.attribute(chk, results, "C18", exe, "expand", "asan-ubsan", d2)
    for rid, evs in allruns.items():
        chk.count()
        nontrivial(chk, {"flavour": "tiny"}, rid, evs)
    shutil.rmtree(d, ignore_errors=True)
    shutil.rmtree(d2, ignore_errors=True)


def carry_model(chk):
    """Implementation layer: the loop of expandCellsToDensity with its area carry, in exact rational arithmetic, one action per cell; TLC checks the
    carry bound, conservation of area and their consequences (at most the target, short of it by less than the last cell's height, never narrower);
    every final state is replayed into the real function (ties at exact integers are where double arithmetic may differ: informational)."""
    import json
    import os
    import shutil
    import vlib
    cfg = "ExpandImpl_" + chk.tier
    d = vlib.scratch("C18-carry")
    out = os.path.join(d, "finals.out")
    res = vlib.tlc_ok(vlib.tlc("ExpandImpl", cfg=cfg, workers=16, coverage=True, stdout_path=out, timeout=3000, xmx="10g"), cfg)
    if res["violated"]:
        raise vlib.FrameworkError("ExpandImpl violates its own invariants: %s" % res["violated"])
    if res["coverage"].get("Step", [0, 0])[1] == 0:
        raise vlib.FrameworkError("vacuous ExpandImpl model")
    chk.add_tlc(res, "tlc expansion loop (carry below one unit of width, area conserved, at most the target and near it, never narrower)")
    exe = vlib.build_exe("asan-ubsan", "replay")
    rc, so, se = vlib.run_exe(exe, stdin_path=out, timeout=3000)
    if rc != 0:
        chk.violation("the real expansion died on the instances of the expansion model (rc=%s): %s" % (rc, (se or "")[-600:]),
                      {"kind": "cases", "module": "ExpandImpl", "cfg": cfg}, "replay-crash")
        shutil.rmtree(d, ignore_errors=True)
        return
    summ = [json.loads(l) for l in so.splitlines() if l.startswith("{") and '"summary"' in l]
    if not summ or summ[0]["impl_seen"] == 0:
        raise vlib.FrameworkError("no ExpandImpl instance was replayed")
    chk.cov.setdefault("impl_conformance", {})[cfg] = {"instances": summ[0]["impl_seen"], "real_widths_equal_model": summ[0]["impl_same"]}
    chk.step("real expandCellsToDensity == exact-arithmetic transcription", instances=summ[0]["impl_seen"], conformant=summ[0]["impl_same"])
    shutil.rmtree(d, ignore_errors=True)


def run(chk):
    carry_model(chk)
    tiny_scope(chk)
    plan = [
        dict(flavour="asan-ubsan", scen="expand", runs=(1200, 30000), opts={"varyScale": 4, "maxMovable": 8, "utilLo": 0.02, "utilHi": 0.9, "zeroAreaMovable": 1}),
        dict(flavour="rel", scen="expand", runs=(800, 20000), opts={"varyScale": 4, "maxMovable": 14, "utilLo": 0.02, "utilHi": 1.2, "zeroAreaMovable": 1}),
        # many cells of mixed heights: rounding remainders carried from cell to cell must not add up
        dict(flavour="rel", scen="expand", runs=(500, 12000), opts={"maxMovable": 60, "twoTypes": 1, "maxFixed": 2, "utilLo": 0.02, "utilHi": 0.3, "maxNets": 2}),
    ]
    run_plan(chk, "C18", plan, nontrivial)
    chk.cov["rule"] = ("per seeded circuit (mixed heights, fixed cells anywhere, zero-size cells, obstructed and split rows) one expandCellsToDensity, one "
                       "expandCellsByFactor and one computeCellExpansion call with dyadic arguments (target/cap p/64, margins in half row heights, width caps, "
                       "factors k/4, congestion k/4 with overlapping regions); TLC evaluates the post-conditions exactly with integers: only movable widths change, "
                       "no cell narrower unless capped, utilisation of the free row area after margin <= target within rounding, target reached within two cell "
                       "heights when no cell hit the cap, expansion factors = max over intersecting congested regions; non-trivial = some width changed / some "
                       "factor above 1 with a fixed cell present")
    chk.assumptions += ["arguments are dyadic rationals so that float arithmetic of the implementation is exact on the checked quantities",
                        "rounding tolerance: 2 x max movable cell height (density) / sum of movable heights (per-cell factors)"]
    return chk.finish()


def replay(path):
    return tracecheck.replay_file(path)
