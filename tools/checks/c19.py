"""C19 Invalid inputs are refused with an error, not undefined behaviour."""
import tracecheck
import vlib
from checks.common import run_plan, first, all_of

LEVEL = "model_checking"


def nontrivial(chk, st, rid, evs):
    for e in evs:
        if e["e"] == "ParamSet":
            chk.nontrivial("ps%s-%s" % (st["flavour"], rid))
            if e["outcome"] == "ok":
                chk.sample({"accepted_set_ints": e["ints"]}, limit=2)
            break
        if e["e"] == "Api" and e["outcome"] == "error":
            chk.nontrivial("api%s-%s" % (st["flavour"], rid))
            chk.sample({"kind": e["kind"], "arg": e["arg"], "outcome": e["outcome"], "what": e["what"]}, limit=8)
            break
        if e["e"] in ("ParamsCtor", "ParamCheck", "Setter") and e.get("outcome") != "skip":
            chk.nontrivial("a%s-%s" % (st["flavour"], rid))
            if e["e"] == "ParamCheck":
                chk.sample({k: e[k] for k in ("field", "bound", "rel", "outcome", "rejectedCall", "sameAfter")}, limit=3)
            elif e["e"] == "ParamsCtor":
                chk.sample({k: e[k] for k in ("which", "effort", "outcome", "passes")}, limit=5)
            break


def run(chk):
    # the attempt table is finite and enumerated completely in both tiers; thorough adds the assertion-free build and more instances
    plan = [dict(flavour="asan-ubsan", exe="record_proto", scen="invalid", runs=(700, 700), opts={}),
            # random histories of the 14 public mutators with valid and invalid arguments: refused iff invalid, a refused call changes nothing
            dict(flavour="asan-ubsan", exe="record_proto", scen="api", runs=(300, 8000), opts={}),
            # whole parameter sets, several fields at once outside / at / inside their ranges and integer fields in every relation the check
            # constrains: accepted iff PlaceAPI.ParamsValid; a rejected set is refused by a placement call before any work
            dict(flavour="asan-ubsan", exe="record_proto", scen="paramsets", runs=(800, 20000), opts={})]
    if not chk.quick:
        plan.append(dict(flavour="rel", exe="record_proto", scen="invalid", runs=(700, 700), opts={}))
        plan.append(dict(flavour="dbg", exe="record_proto", scen="invalid", runs=(700, 700), opts={}))
    run_plan(chk, "C19", plan, nontrivial)
    chk.cov["rule"] = ("complete table of invalid-input attempts, one per forked execution under ASan+UBSan: efforts -16..32 and random 32-bit values for "
                       "ColoquinteParameters and -3..12 for the stage parameter constructors; each of 38 parameter fields outside (by a step, by a hair, by a lot, and exactly zero) / at / inside each bound of "
                       "its documented range (check() outcome, and a legalize call with it must be rejected before any callback and leave the circuit "
                       "unchanged); 11 vector setters x lengths n-1, n+1, 0; addNet/setNets with pins -1, n, n+7 and inconsistent lengths; the expected "
                       "outcome of every attempt is computed by TLC from the contract (PlaceAPI.tla); plus random histories of the 14 public mutators with valid and invalid "
                       "arguments (lengths, pins, limits, weights, row heights), judged by the abstract data type of Circuit in PlaceAPI.tla; plus random whole parameter sets (several fields at once outside / at / inside, "
                       "integer fields in every relation the check constrains) judged by PlaceAPI.ParamsValid and submitted to a placement entry point")
    chk.cov["exhaustive"] = False   # the attempt table is complete, the api histories are sampled
    return chk.finish()


def replay(path):
    return tracecheck.replay_file(path)
