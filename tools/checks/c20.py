"""C20 File export and Python layer are faithful to the circuit."""
import json
import os
import shutil
import subprocess
import sys

import tracecheck
import vlib

LEVEL = "exploration"


def run(chk):
    exe = vlib.build_exe("asan-ubsan", "record")
    d = vlib.scratch("C20")
    exp = os.path.join(d, "files")
    os.makedirs(exp)
    n = chk.pick(400, 8000)
    t1 = os.path.join(d, "export.ndjson")
    rc, so, se = vlib.run_exe(exe, ["out=" + t1, "scen=export", "seed=%d" % (chk.seed * 7919), "runs=%d" % n, "varyScale=8", "exportdir=" + exp,
                                    "maxMovable=12", "maxNets=14", "translate=1"], timeout=3000)
    if rc != 0:
        raise vlib.FrameworkError("export recorder failed: %s" % (se or "")[-500:])
    t2 = os.path.join(d, "roundtrip.ndjson")
    p = subprocess.run([sys.executable, os.path.join(vlib.VERIF, "tools", "c20_read.py"), t1, t2, vlib.REPO], stdout=subprocess.PIPE, stderr=subprocess.STDOUT, text=True)
    if p.returncode != 0:
        raise vlib.FrameworkError("reader driver failed: %s" % p.stdout[-800:])
    t3 = os.path.join(d, "bind.ndjson")
    p = subprocess.run([sys.executable, os.path.join(vlib.VERIF, "tools", "bindings_extract.py"), vlib.REPO, t3], stdout=subprocess.PIPE, stderr=subprocess.STDOUT, text=True)
    if p.returncode != 0:
        raise vlib.FrameworkError("binding extraction failed: %s" % p.stdout[-800:])
    nbind = sum(1 for _ in open(t3))
    if nbind < 100:
        raise vlib.FrameworkError("binding extraction found only %d bindings (module.cpp layout changed?)" % nbind)
    with open(t2, "a") as f:
        f.write(open(t3).read())
    res, reports = tracecheck._validate(t2)
    runs = tracecheck.load_runs(t2)
    chk.cov["states"] += res["distinct"]
    chk.cov["transitions"] += res["distinct"]
    chk.cov["traces_validated_against_impl"] += n
    chk.step("round trips and binding table validated", round_trips=n, bindings=nbind, reports=len(reports))
    for rep in reports:
        for f in rep["fails"]:
            if f["p"] != "C20":
                continue
            evs = [e for e in runs.get(rep["run"], []) if e["e"] == rep["ev"]]
            ev = evs[0] if evs else {}
            replay = {"kind": "c20", "event": {k: v for k, v in ev.items() if k != "after"}}
            chk.violation("C20: %s" % json.dumps(f["why"])[:400], replay, f["sig"])
    for line in open(t2):
        e = json.loads(line)
        if e["e"] == "RoundTrip":
            chk.count()
            b = e["before"]
            if b["nets"] and any(c["o"] != "N" for c in b["cells"]) and any(r["o"] != "N" for r in b["rows"]):
                chk.nontrivial("rt%s" % e["run"])
                chk.sample({"cells": [[c["w"], c["h"], c["o"], c["x"], c["y"]] for c in b["cells"][:5]], "rows": b["rows"][:2],
                            "first_net": b["nets"][0]["pins"][:4]}, limit=2)
        elif e["e"] == "Bind":
            chk.count()
            chk.nontrivial("b%s.%s" % (e["owner"], e["py"]))
            if e["kind"] == "enum":
                chk.sample({"binding": [e["owner"], e["py"], e["cppClass"] + "::" + e["cpp"]]}, limit=4)
    shutil.rmtree(d, ignore_errors=True)
    chk.cov["rule"] = ("seeded random circuits inside the text format's range (integer coordinates, also translated by 2^24..2^27, sizes < 10^5, all eight orientations, placed by legalization or "
                       "unplaced, all row orientations) exported by the real Circuit::exportIspd and re-read by pycoloquinte/coloquinte.py running against a "
                       "pure-Python stand-in of the compiled module; TLC compares sizes, fixed flags, positions, orientations, connectivity, pin offsets, row "
                       "geometry and orientation, and the wirelength; the complete binding table of module.cpp (enum values, attributes, properties, methods bound "
                       "to member pointers) is extracted from the source text and each entry checked; non-trivial round trip = nets, a non-N cell and a non-N row")
    chk.assumptions += ["the compiled Python module cannot be built in this sandbox (pybind11 submodule empty): the binding half is a check of the source text",
                        "the stand-in (pystub/coloquinte_pybind.py) is faithful to the subset of the module API the reader uses",
                        "bindings implemented as lambdas are not covered (no named C++ entity)"]
    return chk.finish()


def replay(path):
    data = json.load(open(path))
    print("C20 replay: re-run `python3 tools/check.py C20` (the failing event is stored in %s)" % path)
    ev = data["replay"].get("event", {})
    if ev.get("e") == "Bind":
        ok = ev["pyn"] == ev["cppn"] and ev["exists"] and ev["sameOwner"]
        if not ok:
            print("VIOLATION property=C20 replay=%s" % path)
            return 1
        return 0
    chk = vlib.Check("C20", LEVEL)
    return run(chk)
