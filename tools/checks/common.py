"""Shared driver for the properties decided by trace validation of the placement entry points."""
import shutil

import json
import os

import tracecheck
import vlib


def moved(c0, c1):
    return [i for i, e in enumerate(c0) if not e["f"] and (e["x"], e["y"], e["o"]) != (c1[i]["x"], c1[i]["y"], c1[i]["o"])]


def run_plan(chk, pid, plan, nontrivial_fn, also=()):
    """plan: list of dict(flavour, scen, runs=(quick, thorough), opts, exe='record')"""
    for k, st in enumerate(plan):
        n = chk.pick(*st["runs"])
        if n <= 0:
            continue
        results, d, allruns, exe = tracecheck.record_and_validate(
            chk, st["flavour"], st.get("exe", "record"), st["scen"], n, st["opts"], seed_offset=k * 101,
            module=st.get("module", "TraceCircuit"))
        tracecheck.attribute(chk, results, pid, exe, st["scen"], st["flavour"], d, also=also,
                             module=st.get("module", "TraceCircuit"), exe_name=st.get("exe", "record"),
                             keep_events=st.get("keep_events", False))
        notes = {}
        for rep, _evs, _p in results:
            for f in rep["fails"]:
                if f["p"] == "note":
                    notes[f["sig"]] = notes.get(f["sig"], 0) + 1
        for k2, v2 in notes.items():
            chk.cov.setdefault("antecedents_held", {})[k2] = chk.cov.get("antecedents_held", {}).get(k2, 0) + v2
        for rid, evs in allruns.items():
            chk.count()
            nontrivial_fn(chk, st, rid, evs)
        shutil.rmtree(d, ignore_errors=True)


def first(evs, name, **kw):
    for e in evs:
        if e["e"] == name and all(e.get(k) == v for k, v in kw.items()):
            return e
    return None


def all_of(evs, name, **kw):
    return [e for e in evs if e["e"] == name and all(e.get(k) == v for k, v in kw.items())]


def replay_cases(chk, module, cfg, name, workers=8, flavour="asan-ubsan", xmx="8g"):
    """TLC enumerates cases (checking the spec's own invariants), the replayer compares the real code with the expectation."""
    exe = vlib.build_exe(flavour, "replay")
    d = vlib.scratch(chk.pid + "-" + name.replace(" ", "_")[:30])
    out = os.path.join(d, "cases.out")
    res = vlib.tlc_ok(vlib.tlc(module, cfg=cfg, workers=workers, stdout_path=out, timeout=3000, xmx=xmx), name)
    if res["violated"]:
        raise vlib.FrameworkError("the specification's own invariant failed in %s: %s" % (module, res["violated"]))
    chk.add_tlc(res, "tlc " + name)
    rc, so, se = vlib.run_exe(exe, stdin_path=out, timeout=3000)
    if rc != 0:
        # a sanitizer report while replaying is a failure of the code under test on that case stream
        chk.violation("replayer died on %s cases (rc=%s): %s" % (name, rc, (se or "")[-600:]), {"kind": "cases", "module": module, "cfg": cfg}, "replay-crash")
        return
    lines = [json.loads(l) for l in so.splitlines() if l.startswith("{")]
    summ = [l for l in lines if l.get("summary")]
    if not summ:
        raise vlib.FrameworkError("replayer produced no summary for " + name)
    n = summ[0]["n"]
    if n == 0:
        raise vlib.FrameworkError("no case replayed for " + name)
    chk.count(n)
    chk.cov["_dn_extra"] = chk.cov.get("_dn_extra", 0) + n
    chk.step("replay " + name, cases=n, mismatches=summ[0]["bad"])
    for l in lines:
        if l.get("summary"):
            continue
        if not l["ok"]:
            chk.violation("%s: code disagrees with the specification on case %s: got %s" % (name, json.dumps(l["case"])[:300], json.dumps(l.get("got"))[:200]),
                          {"kind": "case", "case": l["case"], "flavour": flavour}, "case-mismatch")
    # keep one sample case
    with open(out) as f:
        for line in f:
            if line.startswith('"{'):
                chk.sample({"spec_case": json.loads(json.loads(line))}, limit=3)
                break
    import shutil
    shutil.rmtree(d, ignore_errors=True)




def replay_case_file(path, pid):
    data = json.load(open(path))
    exe = vlib.build_exe(data["replay"].get("flavour", "asan-ubsan"), "replay")
    rc, so, se = vlib.run_exe(exe, ["--all"], stdin_text=json.dumps(data["replay"]["case"]) + "\n")
    bad = rc != 0 or any(not json.loads(l).get("ok", True) for l in (so or "").splitlines() if l.startswith("{") and "summary" not in l)
    if bad:
        print("VIOLATION property=%s replay=%s" % (pid, path))
        return 1
    print("replay: case passes")
    return 0


def model_replay_validate(chk, module, cfg, name, pids, flavour="asan-ubsan", workers=16, xmx="10g", trace_module="TraceAlgo"):
    """Design-level TLC run of an implementation-shaped model (its invariants must hold), every emitted state replayed into the
    real object by harness/replay, the observed results validated by TLC (contract failures -> violations, impl notes counted)."""
    import shutil
    exe = vlib.build_exe(flavour, "replay")
    d = vlib.scratch(chk.pid + "-" + cfg)
    out = os.path.join(d, "cases.out")
    res = vlib.tlc_ok(vlib.tlc(module, cfg=cfg, workers=workers, stdout_path=out, timeout=3000, xmx=xmx), name)
    if res["violated"]:
        raise vlib.FrameworkError("the model %s/%s violates its own invariants: %s" % (module, cfg, res["violated"]))
    chk.add_tlc(res, "tlc " + name)
    ev_path = os.path.join(d, "observed.ndjson")
    rc, so, se = vlib.run_exe(exe, stdin_path=out, stdout_path=ev_path, timeout=3000)
    if rc != 0:
        chk.violation("replayer died while executing %s on the real object (rc=%s): %s" % (name, rc, (se or "")[-500:]),
                      {"kind": "cases", "module": module, "cfg": cfg}, "replay-crash")
        shutil.rmtree(d, ignore_errors=True)
        return
    lines = [l for l in open(ev_path) if '"summary"' not in l]
    if not lines:
        raise vlib.FrameworkError("no observed event for " + name)
    # validate in parallel shards
    shards = min(vlib.NCPU, max(1, len(lines) // 5000))
    per = (len(lines) + shards - 1) // shards
    paths = []
    for s in range(shards):
        part = lines[s * per:(s + 1) * per]
        if part:
            p = os.path.join(d, "obs%02d.ndjson" % s)
            open(p, "w").writelines(part)
            paths.append(p)
    import concurrent.futures
    with concurrent.futures.ThreadPoolExecutor(len(paths)) as ex:
        vals = list(ex.map(lambda p: tracecheck._validate(p, trace_module, None), paths))
    notes = {}
    nfail = 0
    for p, (r2, reports) in zip(paths, vals):
        chk.cov["states"] += r2["distinct"]
        chk.cov["transitions"] += r2["distinct"]
        evs = [json.loads(l) for l in open(p)]
        for rep in reports:
            for f in rep["fails"]:
                if f["p"] == "note":
                    notes[f["sig"]] = notes.get(f["sig"], 0) + 1
                elif f["p"] in pids:
                    nfail += 1
                    ev = evs[rep["line"] - 1]
                    chk.violation("%s: %s" % (f["p"], json.dumps(f["why"])[:400]), {"kind": "trace-events", "module": trace_module, "events": [ev]}, f["sig"])
    n = len(lines)
    chk.count(n)
    chk.cov["_dn_extra"] = chk.cov.get("_dn_extra", 0) + n
    chk.cov["traces_validated_against_impl"] += n
    same = notes.get("impl-same", 0)
    chk.cov.setdefault("impl_conformance", {})[cfg] = {"moves": n, "same_as_transcription": same, "guard_diff": notes.get("impl-guard-diff", 0),
                                                         "result_diff": notes.get("impl-diff", 0)}
    chk.step("replay + validation " + name, observed_moves=n, contract_failures=nfail, impl_same=same)
    if lines:
        chk.sample({"observed_move": json.loads(lines[len(lines) // 2])}, limit=8)
    shutil.rmtree(d, ignore_errors=True)


def small_scope(chk, pid, nontrivial_all, cfg=None):
    """spec -> code -> spec: every circuit of the LegalizeCases scope legalized twice by the real code."""
    import shutil
    cfg = cfg or "LegalizeCases_" + chk.tier
    d = vlib.scratch(pid + "-emit")
    out = os.path.join(d, "cases.out")
    res = vlib.tlc_ok(vlib.tlc("LegalizeCases", cfg=cfg, workers=16, stdout_path=out, timeout=9000, xmx="10g"), cfg)
    if res["violated"]:
        raise vlib.FrameworkError("LegalizeCases: contract operators inconsistent: %s" % res["violated"])
    chk.add_tlc(res, "tlc enumeration of the small legalization scope (" + cfg + ")")
    results, d2, allruns, exe = tracecheck.cases_and_validate(chk, "asan-ubsan", "record", out, cfg, module="TraceCircuit", extra_args=["timeout=60"])
    tracecheck.attribute(chk, results, pid, exe, "leg", "asan-ubsan", d2)
    same = sum(1 for rep, _e, _p in results for f in rep["fails"] if f["sig"] == "impl-same")
    diff = sum(1 for rep, _e, _p in results for f in rep["fails"] if f["sig"] == "impl-diff")
    chk.cov.setdefault("impl_conformance", {})[cfg] = {"legalizations": same + diff, "same_as_LegalizeImpl": same, "different": diff}
    nontrivial_all(chk, allruns)
    for evs in allruns.values():
        if any(e["e"] == "EndThrow" for e in evs):
            chk.cov["small_scope_throws"] = chk.cov.get("small_scope_throws", 0) + 1
    shutil.rmtree(d, ignore_errors=True)
    shutil.rmtree(d2, ignore_errors=True)


