"""Shared driver for the properties decided by trace validation of the placement entry points."""
import shutil

import tracecheck


def moved(c0, c1):
    return [i for i, e in enumerate(c0) if not e["f"] and (e["x"], e["y"], e["o"]) != (c1[i]["x"], c1[i]["y"], c1[i]["o"])]


def run_plan(chk, pid, plan, nontrivial_fn, also=()):
    """plan: list of dict(flavour, scen, runs=(quick, thorough), opts, exe='record')"""
    for k, st in enumerate(plan):
        n = chk.pick(*st["runs"])
        if n <= 0:
            continue
        results, d, allruns, exe = tracecheck.record_and_validate(
            chk, st["flavour"], st.get("exe", "record"), st["scen"], n, st["opts"], seed_offset=k * 101)
        tracecheck.attribute(chk, results, pid, exe, st["scen"], st["flavour"], d, also=also)
        for rid, evs in allruns.items():
            chk.count()
            nontrivial_fn(chk, st, rid, evs)
        shutil.rmtree(d, ignore_errors=True)


def first(evs, name, **kw):
    for e in evs:
        if e["e"] == name and all(e.get(k) == v for k, v in kw.items()):
            return e
    return None


def all_of(evs, name, **kw):
    return [e for e in evs if e["e"] == name and all(e.get(k) == v for k, v in kw.items())]
