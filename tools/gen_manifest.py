#!/usr/bin/env python3
"""Writes /verif/MANIFEST.json from the table below (one entry per property whose check exists)."""
import json
import os

V = os.path.dirname(os.path.dirname(os.path.abspath(__file__)))
props = [json.loads(l) for l in open(os.path.join(V, "properties.jsonl"))]

TRUST = "TLC and the CommunityModules; the TLA+ definitions in spec/Geometry.tla, Orient.tla, PlaceAPI.tla; the JSON projection of harness/project.hpp; seeded generators stay inside the stated domain"

CHECKS = {
 "C01": dict(cat="model_checking", tech="TLA+ contract (Geometry.Legal, TrivialFit) + TLC trace validation of recorded Circuit::legalize executions",
             text="Every recorded legalize execution (callback state, return, throw) on seeded random circuits of the whole C01 domain is replayed into spec/TraceCircuit.tla; TLC evaluates Legal on every exposed state, 'throw => not TrivialFit' and 'throw => placement unchanged'. Sampling of inputs is random (seeded), the judgement of each sample is by the specification.",
             ref="5/C01"),
 "C02": dict(cat="model_checking", tech="TLA+ contract + TLC trace validation of Circuit::placeDetailed (every Detailed callback) against a legalize-only reference run",
             text="Every Detailed callback state and the return of recorded placeDetailed executions are checked by TLC for Legal, 'ignored (multi-row) cells stay where legalization put them', and 'no failure when the legalize-only run on a copy of the same circuit succeeded'.", ref="5/C02"),
 "C03": dict(cat="model_checking", tech="TLA+ frame condition (Geometry.Frame/FrameGlobal) checked by TLC on every event of recorded traces of all stages",
             text="All three stages and their composition, with/without callbacks, including executions ending in exceptions; every exposed circuit is compared by TLC against the circuit at Reset: structure identical, fixed cells identical, global placement leaves orientations.", ref="5/C03"),
 "C04": dict(cat="model_checking", tech="orientation algebra in TLA+ (Orient.tla) + TLC trace validation (OrientOK) + exhaustive table replay",
             text="TLC derives the allowed orientation of each polarised cell from the row under its bottom edge with the generator-based algebra and checks it on every legalize/placeDetailed callback and return; the polarity table and opposite-row function of the code are compared exhaustively with the algebra.", ref="5/C04"),
 "C05": dict(cat="model_checking", tech="TLA+ HPWL through the orientation algebra + TLC trace validation of callback sequences",
             text="TLC recomputes the wirelength of every exposed state and checks monotonicity over the Detailed callbacks and against the legalized placement; run once without polarities (no known finding can match) and once with.", ref="5/C05"),
 "C06": dict(cat="model_checking", tech="TLA+ GlobalLoop model (callback grammar, export reads last LB/UB, termination) + TLC trace validation of placeGlobal callbacks (InArea, Finite, blend, grammar)",
             text="Design level: TLC checks the control flow of the global loop exhaustively for small step counts (grammar, the export uses the last lower and upper bound, termination). Code level (numeric content, exploration over inputs): every UpperBound exposure, every coordinate, the callback grammar and the returned blend of recorded runs are checked by TLC.",
             ref="5/C06", engine="tlc-design; record + tlc-trace"),
 "C07": dict(cat="exploration", tech="TLA+ outcome alphabet (TraceCircuit has no accepting action for Abort/Sanitizer/Timeout) + TLC-emitted shape x magnitude case table executed in forked children under ASan/UBSan, with and without assertions",
             text="Exploration over inputs: every case of the TLC-emitted table of degenerate shapes at magnitudes up to 2^22 and seeded random circuits are run through the three stages in forked children (ASan+UBSan with assertions; UBSan with -O2 -DNDEBUG; plain assertion build) under a wall-clock budget; the child's fate is the last trace event and the trace specification refuses anything but Return/Throw. The spec contributes the alphabet and the table, the search is over inputs.",
             ref="5/C07", engine="record + tlc-trace"),
 "C08": dict(cat="model_checking", tech="TLA+ fork/join model (all interleavings; uninterpreted results; read/write sets) + hook-forced completion orders, run-order histories and ThreadSanitizer runs validated by TLC's memo contract",
             text="Design level: TLC explores every interleaving of the two solver threads with the main thread (results are terms over what was read, so a cross-thread read makes them schedule dependent; the racy variant is rejected). Code level: the hook forces both completion orders of every lower-bound step plus random orders/delays, on one and many cores; job histories in different orders and processes; every pair of executions of the same stage on the same input must agree bitwise (TLC memo); TSan reports are refused events.",
             ref="5/C08", engine="tlc-design; record + tlc-trace"),
 "C09": dict(cat="model_checking", tech="TLA+ orientation algebra + IncrHpwl spec: TLC-enumerated cases and update histories replayed into Circuit/IncrNetModel; TLC trace validation of random circuits (also translated by 2^24..2^27 and magnified to the end of the int range); wirelength of the state defined by histories of the public mutators (abstract data type PlaceAPI.ApiEffect)",
             text="Exhaustive within bounds: every orientation x size x pin offset (the algebra is generated from two generators, independent of the code's case table) and every update history of the implementation-shaped IncrHpwl model (whose invariant value = from-scratch TLC checks) is replayed into the real objects; random circuits and histories are recorded and their wirelengths recomputed by TLC.",
             ref="5/C09", engine="tlc-edges + replay; record + tlc-trace"),
 "C12": dict(cat="model_checking", tech="TLA+ transcription of the cascading descent (RowLegalizer.tla) refining a brute-force contract; all histories replayed into RowLegalizer; TLC trace validation at large coordinates",
             text="TLC checks on the complete scope that the transcription keeps order, containment, optimality (brute force over all ordered placements) and exact cost sums, and that a query leaves the queue unchanged; every history is replayed into a real RowLegalizer (contract decides, step-level equality with the transcription is reported as impl_conformance); random long histories at coordinates up to 2^22 are validated by TLC with a product-free optimality criterion that is itself checked against brute force.",
             ref="5/C12", engine="tlc-design; tlc-edges + replay; record + tlc-trace"),
 "C13": dict(cat="model_checking", tech="TLA+ transportation contract (feasible + no negative residual cycle, checked against brute force) and SspImpl (implementation-shaped successive-shortest-path model); TLC-enumerated tiny problems and random problems (quantities up to 2^36 logged in units, costs near 2^30 with split potentials, capacity normalisation) solved by the real code, plans validated by TLC",
             text="All tiny problems are enumerated by TLC, solved by TransportationProblem::solve and the returned plans validated by TLC (feasibility, optimality certificate, arg-max assignment); random problems up to 16 sinks likewise.",
             ref="5/C13", engine="tlc-design; record + tlc-trace"),
 "C14": dict(cat="model_checking", tech="TLA+ contract instance with cost |u-v| + rounding rule, and T1dImpl (the sweep transcribed action by action: termination, optimality, rounding in range); TLC-enumerated tiny instances and random ones (totals beyond 2^31, logged in units) executed under AddressSanitizer, results validated by TLC",
             text="Every tiny instance (zero supplies/demands, duplicates, unsorted) is executed by Transportation1d::solve/assign under ASan in forked children; TLC validates plan optimality, the rounding rule and the result length; a sanitizer report is an event outside the contract's alphabet.",
             ref="5/C14", engine="tlc-design; record + tlc-trace"),
 "C15": dict(cat="model_checking", tech="TLA+ FreeSegments (endpoint-based, checked equal to column-based by TLC) enumerated exhaustively and replayed into Row::freespace / Circuit::computeRows; random traces validated, also at the consumers (Legalizer, DetailedPlacement) and on the state defined by histories of the public mutators",
             text="Exhaustive on a grid of before/at/inside/at/after coordinates around a row with every flag combination; random large-coordinate cases validated endpoint-wise.",
             ref="5/C15", engine="tlc-edges + replay; record + tlc-trace"),
 "C10": dict(cat="fault_enumeration", tech="TLA+ protocol model (PlaceProtocol.tla: invariants + liveness, all interleavings) + exhaustive per-instance fault enumeration (throw at every callback index) validated by TLC against the shared setter contract",
             text="Design level: TLC explores every interleaving of calls, callbacks, exceptions and setters of the protocol model (the unrepaired variant Guard=FALSE is kept and violates IdleMeansUnlocked). Code level: for every instance every callback index is used once as the fault point; setters inside callbacks and after each kind of end are validated event by event.",
             ref="5/C10", engine="tlc-design; record + tlc-trace"),
 "C16": dict(cat="model_checking", tech="TLA+ hierarchy model (DensityHier.tla: all interleavings of refine/coarsen/move) executed by the real object + BisectImpl (the bisection rule, replayed through the hook) + TLC validation of every observed state (DensityOps: tiling, capacity, partition, coordinates), also on instances magnified by 2^12",
             text="Design level: TLC explores all interleavings of the view-changing operations and a contract-level move on small grids (tiling, partition, aggregation invariants) and every history is executed by the real HierarchicalDensityPlacement/DensityLegalizer; code level: random regions, parameters and operation sequences, and grids built from circuits; after every operation TLC recomputes capacities from the regions and checks the partition and the coordinates.",
             ref="5/C16", engine="tlc-design; record + tlc-trace"),
 "C17": dict(cat="exploration", tech="TLA+ quadratic-model oracle (NetQuadratic.tla: stationarity of the documented weighted least-squares objective in fixed point) + scaling contract validated by TLC on recorded solver runs",
             text="Exploration with a TLA+ oracle: the conjugate-gradient iteration is not modelled. Recorded solveStar/solve/solveWithPenalty runs on small net lists with dyadic fractional weights are re-run with all weights and penalties scaled; TLC compares float bit patterns for 2^k factors, tolerances otherwise, and evaluates the gradient of the documented quadratic at the returned star solution.",
             ref="5/C17", engine="record + tlc-trace"),
 "C18": dict(cat="model_checking", tech="TLA+ integer post-conditions of the three expansion entry points (cross-multiplied rationals) evaluated by TLC on recorded executions with dyadic arguments + ExpandImpl (the carry loop in exact arithmetic, design invariants, replay)",
             text="Every recorded expandCellsToDensity / expandCellsByFactor / computeCellExpansion call is judged by TLC: frame (only movable widths), monotonicity unless capped, utilisation bound after margin, target reached within rounding when uncapped, expansion factors as the maximum over intersecting congested regions.",
             ref="5/C18", engine="record + tlc-trace"),
 "C20": dict(cat="exploration", tech="identity contract on export -> read-back executions (real exportIspd + the package's reader on a Python stand-in) and name relation on the binding table extracted from module.cpp, both evaluated by TLC",
             text="Weakest use of the family (DESIGN section 8): recorded export/read executions are validated against an identity relation field by field, and the binding table of the module source against a same-name relation; the compiled module cannot be built offline.",
             ref="5/C20", engine="record + tlc-trace"),
 "C19": dict(cat="model_checking", tech="finite table of invalid-input attempts (each bound probed by a step, a hair, a lot and zero; all three entry points with a control call) + random whole parameter sets (PlaceAPI.ParamsValid) + histories of the public mutators (ApiValid/ApiEffect), executed under ASan+UBSan, outcomes validated by TLC against PlaceAPI.tla",
             text="The attempt space (efforts, every field at/around each bound, every setter with wrong lengths, bad nets) is finite and enumerated completely; expected outcomes come from the contract operators evaluated by TLC; sanitizer reports and aborts are events outside the alphabet.",
             ref="5/C19", engine="record + tlc-trace"),
 "C11": dict(cat="model_checking", tech="TLA+ contract (legal single-row input => stutter) + TLC trace validation of legalize;legalize",
             text="For every recorded pair of successive legalize calls TLC checks the antecedent (input Legal, all movable cells row-high) and that positions are unchanged.", ref="5/C11"),
}

def main():
    checks = []
    for p in props:
        pid = p["id"]
        if pid not in CHECKS or not os.path.exists(os.path.join(V, "tools", "checks", pid.lower() + ".py")):
            continue
        c = CHECKS[pid]
        checks.append({
            "property_id": pid,
            "quick_cmd": "python3 tools/check.py %s --tier quick" % pid,
            "thorough_cmd": "python3 tools/check.py %s --tier thorough" % pid,
            "evidence_file": "evidence/%s.json" % pid,
            "replay_cmd_template": "python3 tools/check.py %s --replay {path}" % pid,
            "engine": c.get("engine", "record + tlc-trace"),
            "level_claimed": {"category": c["cat"], "text": c["text"], "design_ref": "DESIGN.md section " + c["ref"]},
            "level_note": c.get("note", TRUST),
            "technique": c["tech"],
        })
    claimed = {c["property_id"] for c in checks}
    m = {
        "version": 1,
        "setup_cmd": "python3 tools/setup.py",
        "hooks": {"guard": "COLOQUINTE_VERIF",
                  "enable": "tools/vlib.py compiles /repo/src with -DCOLOQUINTE_VERIF into /verif/build (all flavours)",
                  "baseline_off_cmd": "cmake -G Ninja -S /repo -B /repo/_build -DCMAKE_BUILD_TYPE=RelWithDebInfo && cmake --build /repo/_build && ctest --test-dir /repo/_build -j8 --timeout 900",
                  "source_commits": [], "add_only": True},
        "engines": [
            {"name": "tlc-design", "path": "spec/", "kind_free_text": "exhaustive TLC exploration of the implementation-shaped and contract specifications"},
            {"name": "tlc-edges + replay", "path": "harness/replay.cpp", "kind_free_text": "TLC-enumerated cases/edges replayed into the real objects (spec -> code)"},
            {"name": "record + tlc-trace", "path": "harness/record.cpp spec/TraceCircuit.tla", "kind_free_text": "recorded executions of the real entry points validated by TLC against the contract (code -> spec)"},
        ],
        "checks": checks,
        "not_applicable": [{"property_id": p["id"], "reason": "check not built yet (work in progress; see DESIGN.md section 5)"}
                           for p in props if p["id"] not in claimed],
    }
    hooks_file = os.path.join(V, "HOOK_COMMITS.txt")
    if os.path.exists(hooks_file):
        m["hooks"]["source_commits"] = [l.strip() for l in open(hooks_file) if l.strip()]
    for e in m["engines"]:
        e["serves_properties"] = sorted(c["property_id"] for c in checks if c["engine"] == e["name"] or e["name"] in c["engine"])
    json.dump(m, open(os.path.join(V, "MANIFEST.json"), "w"), indent=1)
    print("MANIFEST.json: %d checks, %d not applicable" % (len(checks), len(m["not_applicable"])))

if __name__ == "__main__":
    main()
