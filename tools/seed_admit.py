#!/usr/bin/env python3
"""Confirm a seeded change in a scratch worktree of /repo and admit it into /verif/seeded/<name>/.
usage: seed_admit.py <dir with patch.diff demo.cpp NOTES.md> <property id> <name> [extra link flags]"""
import json
import os
import shutil
import subprocess
import sys

src, pid, name = sys.argv[1:4]
extra = sys.argv[4:]
WT = "/tmp/seedverify-%d" % os.getpid()


def sh(cmd, **kw):
    r = subprocess.run(cmd, shell=True, stdout=subprocess.PIPE, stderr=subprocess.STDOUT, text=True, **kw)
    return r.returncode, r.stdout


def main():
    log = []
    subprocess.run("git -C /repo worktree remove --force %s 2>/dev/null; rm -rf %s" % (WT, WT), shell=True)
    rc, out = sh("git -C /repo worktree add -q --detach %s HEAD" % WT)
    assert rc == 0, out
    try:
        patch = os.path.abspath(os.path.join(src, "patch.diff"))
        rc, out = sh("git -C %s apply %s" % (WT, patch))
        log.append(("apply", rc))
        if rc != 0:
            print("patch does not apply:", out)
            return 1
        rc, out = sh("cmake -G Ninja -S %s -B %s/_b -DCMAKE_BUILD_TYPE=RelWithDebInfo >/dev/null && cmake --build %s/_b -j12 2>&1 | tail -3" % (WT, WT, WT))
        log.append(("build", rc))
        if rc != 0:
            print("build failed", out)
            return 1
        rc, out = sh("ctest --test-dir %s/_b -j8 2>&1 | tail -4" % WT)
        ok_tests = "100% tests passed" in out
        log.append(("ctest_with_patch", ok_tests))
        if not ok_tests:
            print("tests fail with patch:", out)
            return 1
        demo = os.path.abspath(os.path.join(src, "demo.cpp"))
        rc, out = sh("g++ -std=c++17 -O1 -I%s/src -I/usr/include/eigen3 %s -o %s/demo -L%s/_b -lcoloquinte -Wl,-rpath,%s/_b -lpthread %s" % (WT, demo, WT, WT, WT, " ".join(extra)))
        if rc != 0:
            print("demo does not compile:", out[-1500:])
            return 1
        rc1, out1 = sh("cd %s && timeout 600 ./demo 2>&1 | tail -5" % WT)
        rc1, _ = sh("cd %s && timeout 600 ./demo >/dev/null 2>&1" % WT)
        log.append(("demo_with_patch_rc", rc1))
        sh("git -C %s checkout -- ." % WT)
        rc, out = sh("cmake --build %s/_b -j12 2>&1 | tail -1" % WT)
        rc0, out0 = sh("cd %s && timeout 600 ./demo >/dev/null 2>&1" % WT)
        log.append(("demo_without_patch_rc", rc0))
        print("demo with patch rc=%s, without rc=%s" % (rc1, rc0))
        print(out1)
        if rc1 == 0 or rc0 != 0:
            print("NOT ADMITTED: demo must fail with the change and pass without it")
            return 1
        dst = os.path.join("/verif/seeded", name)
        os.makedirs(dst, exist_ok=True)
        for f in ("patch.diff", "demo.cpp", "NOTES.md"):
            if os.path.exists(os.path.join(src, f)):
                shutil.copy(os.path.join(src, f), dst)
        notes = open(os.path.join(src, "NOTES.md")).read() if os.path.exists(os.path.join(src, "NOTES.md")) else ""
        meta = {"property": pid, "name": name,
                "needs_to_manifest": "see NOTES.md",
                "confirmed": {"base_commit": subprocess.check_output("git -C /repo rev-parse --short HEAD", shell=True, text=True).strip(),
                              "applies": True, "builds": True, "existing_tests_pass_with_change": True,
                              "demo_exit_with_change": rc1, "demo_exit_without_change": rc0,
                              "commands": ["git worktree add /tmp/seedverify HEAD", "git apply patch.diff", "cmake -G Ninja ... && cmake --build", "ctest (10 executables / 70 cases)",
                                           "g++ demo.cpp ... && ./demo (with change)", "git checkout -- . && rebuild && ./demo (without change)"]},
                "demo_link_flags": extra}
        json.dump(meta, open(os.path.join(dst, "meta.json"), "w"), indent=1)
        print("ADMITTED", dst)
        return 0
    finally:
        subprocess.run("git -C /repo worktree remove --force %s; rm -rf %s" % (WT, WT), shell=True)


sys.exit(main())
