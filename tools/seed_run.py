#!/usr/bin/env python3
"""Run a property's check against seeded changes: apply the patch to /repo, run the quick (or thorough) check, undo.
usage: seed_run.py <seed name>... [--tier quick|thorough] [--check Cxx]"""
import json
import os
import subprocess
import sys
import time

args = [a for a in sys.argv[1:] if not a.startswith("--")]
tier = "quick"
only = None
for i, a in enumerate(sys.argv):
    if a == "--tier":
        tier = sys.argv[i + 1]
    if a == "--check":
        only = sys.argv[i + 1]
args = [a for a in args if a not in (tier, only)]
if not args:
    args = sorted(os.listdir("/verif/seeded"))
for name in args:
    d = os.path.join("/verif/seeded", name)
    if not os.path.exists(os.path.join(d, "meta.json")):
        continue
    meta = json.load(open(os.path.join(d, "meta.json")))
    pid = only or meta["property"]
    # a scratch worktree of /repo's HEAD with the change applied (so that /repo itself stays usable meanwhile);
    # equivalent to `git -C /repo apply` + run + `git -C /repo checkout -- .`
    wt = "/tmp/seedrun-%s-%d" % (name, os.getpid())
    subprocess.run("git -C /repo worktree add -q --detach %s HEAD" % wt, shell=True, check=True)
    t0 = time.time()
    try:
        r = subprocess.run("git -C %s apply %s/patch.diff" % (wt, d), shell=True)
        if r.returncode != 0:
            print(name, "patch does not apply")
            continue
        env = "VERIF_REPO=%s VERIF_EVIDENCE_SUFFIX=.seed-%s VERIF_REPLAY_DIR=/verif/build/seedreplays/%s" % (wt, name, name)
        p = subprocess.run("cd /verif && %s python3 tools/check.py %s --tier %s" % (env, pid, tier), shell=True,
                           stdout=subprocess.PIPE, stderr=subprocess.STDOUT, text=True)
    finally:
        subprocess.run("git -C /repo worktree remove --force %s" % wt, shell=True)
    viol = [l for l in p.stdout.splitlines() if l.startswith("VIOLATION")]
    what = [l for l in p.stdout.splitlines() if l.startswith("  what:")]
    res = {"check": pid, "tier": tier, "exit": p.returncode, "violations": len(viol), "first": (what[0][:300] if what else ""),
           "wall_s": round(time.time() - t0, 1), "caught": p.returncode == 1 and len(viol) > 0}
    meta.setdefault("results", {})["%s/%s" % (pid, tier)] = res
    json.dump(meta, open(os.path.join(d, "meta.json"), "w"), indent=1)
    print("%-28s %s/%s exit=%d violations=%d %.0fs %s" % (name, pid, tier, p.returncode, len(viol), time.time() - t0, "CAUGHT" if res["caught"] else "MISSED"))
    if p.returncode == 2:
        print(p.stdout[-1500:])
