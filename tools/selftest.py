#!/usr/bin/env python3
"""Binding self-test: record small traces from the real code, corrupt one recorded field (or drop one hook event) and check that
TLC's judgement turns red for the expected property - and stays green on the uncorrupted trace.  Writes selftest/RESULTS.json."""
import copy
import json
import os
import shutil
import sys

sys.path.insert(0, os.path.dirname(os.path.abspath(__file__)))
import tracecheck
import vlib


def record(exe_name, flavour, scen, runs, opts, d, tag):
    exe = vlib.build_exe(flavour, exe_name)
    out = os.path.join(d, tag + ".ndjson")
    args = ["out=" + out, "scen=" + scen, "seed=4242", "runs=%d" % runs] + ["%s=%s" % kv for kv in opts.items()]
    rc, so, se = vlib.run_exe(exe, args, timeout=900)
    if rc != 0:
        raise vlib.FrameworkError("recorder failed: " + (se or "")[-300:])
    return [json.loads(l) for l in open(out)]


def judge(events, module, d, tag):
    p = os.path.join(d, tag + ".ndjson")
    with open(p, "w") as f:
        for e in events:
            f.write(json.dumps(e) + "\n")
    try:
        res, reports = tracecheck._validate(p, module, None)
    except vlib.FrameworkError as e:
        return {"framework-error": 1}
    got = {}
    for rep in reports:
        for f in rep["fails"]:
            if f["p"] != "note":
                got[f["p"]] = got.get(f["p"], 0) + 1
    return got


def main():
    d = vlib.scratch("selftest")
    results = []

    def case(name, events, module, mutate, expect):
        base = judge(events, module, d, name + "-base")
        ev2 = copy.deepcopy(events)
        ok_mut = mutate(ev2)
        got = judge(ev2, module, d, name + "-mut") if ok_mut else {}
        newly = {k: v - base.get(k, 0) for k, v in got.items() if v > base.get(k, 0)}
        verdict = ok_mut and expect in newly
        results.append({"case": name, "expected_property": expect, "baseline_reports": base, "reports_after_corruption": got, "detected": bool(verdict)})
        print("%-38s expect %-4s baseline=%s after=%s -> %s" % (name, expect, base, got, "DETECTED" if verdict else "MISSED"))

    leg = record("record", "rel", "leg", 40, {"cb": 1, "polar": 0, "turned": 0}, d, "leg")

    def last(evs, kind, pred=lambda e: True):
        xs = [e for e in evs if e["e"] == kind and pred(e)]
        return xs[-1] if xs else None

    def m_fixed(evs):
        for e in evs:
            if e["e"] == "EndReturn" and any(c["f"] for c in e["circ"]["cells"]):
                c = [c for c in e["circ"]["cells"] if c["f"]][0]
                c["x"] += 1
                return True
        return False
    case("fixed cell moved in a return event", leg, "TraceCircuit", m_fixed, "C03")

    def m_wl(evs):
        e = last(evs, "EndReturn")
        e["wl"] += 1
        return True
    case("reported wirelength off by one", leg, "TraceCircuit", m_wl, "C09")

    def m_offrow(evs):
        for e in evs:
            if e["e"] == "EndReturn":
                mov = [c for c in e["circ"]["cells"] if not c["f"]]
                top = max(r["y1"] for r in e["circ"]["rows"])
                mov[0]["y"] = top + 7
                return True
        return False
    case("movable cell above the rows after legalize", leg, "TraceCircuit", m_offrow, "C01")

    def m_net(evs):
        for e in evs:
            if e["e"] == "EndReturn" and e["circ"]["nets"]:
                e["circ"]["nets"][0]["pins"][0]["dx"] += 1
                e["wl"] = e["wl"]  # unchanged on purpose
                return True
        return False
    case("pin offset changed by a placement call", leg, "TraceCircuit", m_net, "C03")

    proto = record("record_proto", "rel", "proto", 6, {}, d, "proto")

    def m_setter(evs):
        for e in evs:
            if e["e"] == "Setter" and e["outcome"] == "refused":
                e["outcome"] = "ok"
                return True
        return False
    case("setter accepted inside a callback", proto, "TraceCircuit", m_setter, "C10")

    sched = record("record_sched", "rel", "sched", 3, {}, d, "sched")

    def m_hook(evs):
        for i, e in enumerate(evs):
            if e["e"] == "Solve" and e["phase"] == "exit":
                del evs[i]
                return True
        return False
    case("one hook exit event removed", sched, "TraceCircuit", m_hook, "C08")

    def m_result(evs):
        rets = [e for e in evs if e["e"] == "EndReturn"]
        mov = [c for c in rets[1]["circ"]["cells"] if not c["f"]]
        mov[0]["x"] += 1
        return True
    case("one schedule gives a different coordinate", sched, "TraceCircuit", m_result, "C08")

    algo = record("record_algo", "rel", "rowhist", 30, {}, d, "row")

    def m_row(evs):
        for e in evs:
            if e["e"] == "RowHist" and len(e["pl"]) >= 2 and e["pl"][0] > e["lo"]:
                e["pl"][0] -= 1
                return True
        return False
    case("row legalizer placement shifted by one", algo, "TraceAlgo", m_row, "C12")
    tr = record("record_algo", "rel", "transport", 30, {}, d, "tr")

    def m_alloc(evs):
        for e in evs:
            if e["e"] == "Transport" and len(e["cap"]) >= 2:
                a = e["alloc"]
                for i in range(len(a)):
                    for s in range(len(a[i])):
                        if a[i][s] > 0:
                            j = (i + 1) % len(a)
                            a[i][s] -= 1
                            a[j][s] += 1
                            return True
        return False
    case("one unit of a plan moved to another sink", tr, "TraceAlgo", m_alloc, "C13")


    api = record("record_proto", "rel", "api", 12, {}, d, "api")

    def m_api_wl(evs):
        for e in evs:
            if e["e"] == "Api" and e["outcome"] == "ok" and e["circ"]["nets"]:
                e["wl"] += 1
                return True
        return False
    case("api history: hpwl() off by one after a mutator", api, "TraceCircuit", m_api_wl, "C09")

    def m_api_accept(evs):
        for e in evs:
            if e["e"] == "Api" and e["outcome"] == "error":
                e["outcome"] = "ok"
                return True
        return False
    case("api history: invalid call reported as accepted", api, "TraceCircuit", m_api_accept, "C19")

    def m_api_free(evs):
        for e in evs:
            if e["e"] == "Api" and len(e["free"]) >= 1:
                e["free"][0]["x1"] -= 1
                return True
        return False
    case("api history: one free row shortened", api, "TraceCircuit", m_api_free, "C15")

    def m_api_arg(evs):
        # the logged argument no longer matches what the object did: the model state diverges and the observers see it
        for e in evs:
            if e["e"] == "Api" and e["kind"] == "setCellX" and e["outcome"] == "ok" and e["circ"]["nets"] and len(e["arg"]["v"]) >= 1:
                pinned = {p["c"] for n in e["circ"]["nets"] for p in n["pins"]}
                for i in range(len(e["arg"]["v"])):
                    if (i + 1) in pinned:
                        e["arg"]["v"][i] += 1000
                        return True
        return False
    case("api history: logged argument differs from the call", api, "TraceCircuit", m_api_arg, "C09")

    def m_api_pol(evs):
        for e in evs:
            if e["e"] == "Api" and e["kind"] == "setCellRowPolarity" and e["outcome"] == "ok":
                c = e["circ"]["cells"][0]
                c["p"] = "SAME" if c["p"] != "SAME" else "ANY"
                return True
        return False
    case("api history: stored polarity differs from the given one", api, "TraceCircuit", m_api_pol, "C04")

    free = record("record", "rel", "free", 12, {}, d, "free")

    def m_use(evs):
        for e in evs:
            if e["e"] == "FreeUse" and e["kind"] == "legalizer" and e["rows"]:
                del e["rows"][0]
                return True
        return False
    case("a consumer lost one free row", free, "TraceCircuit", m_use, "C15")

    incr = record("record", "rel", "incr", 8, {"maxNets": 8}, d, "incr")

    def m_scale(evs):
        for e in evs:
            if e["e"] == "HpwlScale":
                e["r"] = 1
                return True
        return False
    case("magnified circuit: remainder not zero", incr, "TraceCircuit", m_scale, "C09")

    netw = record("record_algo", "rel", "netw", 12, {}, d, "netw")

    def m_build(evs):
        for e in evs:
            if e["e"] == "NetBuild" and e["built"]:
                e["built"][0]["w1024"] = 1024
                e["built8"][0]["w1024"] = 128
                if all(n["w4"] == 4 for n in e["nets"]):
                    continue
                return True
        return False
    case("built net model carries weight 1 instead of the given weight", netw, "TraceAlgo", m_build, "C17")

    os.makedirs(os.path.join(vlib.VERIF, "selftest"), exist_ok=True)
    with open(os.path.join(vlib.VERIF, "selftest", "RESULTS.json"), "w") as f:
        json.dump(results, f, indent=1)
    shutil.rmtree(d, ignore_errors=True)
    return 0 if all(r["detected"] for r in results) else 1


if __name__ == "__main__":
    sys.exit(main())
