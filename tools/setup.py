#!/usr/bin/env python3
"""MANIFEST.setup_cmd: build every library flavour and harness from /repo's working tree, parse every TLA+ module."""
import os
import sys

sys.path.insert(0, os.path.dirname(os.path.abspath(__file__)))
import vlib

def main():
    os.makedirs(vlib.BUILD, exist_ok=True)
    bad = vlib.sany_all()
    for f, out in bad:
        print("SANY failed on %s\n%s" % (f, out))
    jobs = []
    for fl in ("rel", "asan-ubsan"):
        for exe in ("record", "replay", "record_algo", "record_proto"):
            jobs.append((fl, exe))
    jobs.append(("asan", "record_algo"))
    jobs.append(("rel", "record_sched"))
    jobs.append(("ubsan-rel", "record"))
    jobs.append(("dbg", "record"))
    jobs.append(("tsan", "record_sched"))
    vlib.build_many(jobs)
    print("setup ok: %d harness builds" % len(jobs))
    return 1 if bad else 0

if __name__ == "__main__":
    try:
        sys.exit(main())
    except vlib.FrameworkError as e:
        print("setup failed:", e)
        sys.exit(2)
