#!/usr/bin/env python3
"""Print one run of a trace compactly: showrun.py <trace> <run>"""
import json,sys
def circ(c):
    out=[]
    out.append("  rows: "+" ".join("[%d,%d)x[%d,%d)%s"%(r['x0'],r['x1'],r['y0'],r['y1'],r['o']) for r in c['rows']))
    for i,e in enumerate(c['cells']):
        out.append("  cell %d: %dx%d %s%s %s at (%d,%d) %s"%(i+1,e['w'],e['h'],'F' if e['f'] else 'm','o' if e['ob'] else '-',e['p'],e['x'],e['y'],e['o']))
    out.append("  nets: "+" ".join("{"+",".join("%d+(%d,%d)"%(p['c'],p['dx'],p['dy']) for p in n['pins'])+"}" for n in c['nets']))
    return "\n".join(out)
run=int(sys.argv[2])
for line in open(sys.argv[1]):
    e=json.loads(line)
    if e.get('run')!=run: continue
    d={k:v for k,v in e.items() if k not in('circ',)}
    print(json.dumps(d)[:500])
    if 'circ' in e: print(circ(e['circ']))
