"""Code -> spec checks on the placement entry points: record traces of the real library in parallel shards,
validate every shard against spec/TraceCircuit.tla with TLC, attribute the contract failures TLC reports to
properties, confirm each failing run by re-recording it alone, write replay files."""
import concurrent.futures
import hashlib
import json
import os
import shutil

import vlib


def _record_shard(exe, out, scen, seed, first, runs, opts, timeout):
    args = ["out=" + out, "scen=" + scen, "seed=%d" % seed, "first=%d" % first, "runs=%d" % runs]
    args += ["%s=%s" % (k, v) for k, v in opts.items()]
    rc, so, se = vlib.run_exe(exe, args, timeout=timeout)
    if rc != 0:
        raise vlib.FrameworkError("recorder failed rc=%s: %s" % (rc, (se or "")[-800:]))
    return out


def _validate(path, module="TraceCircuit", cfg=None):
    res = vlib.tlc(module, cfg=cfg, workers=1, env={"TRACE": path}, timeout=3000, xmx="2g")
    reports = []
    rejected = None
    for rep in vlib.tlc_strings(res["out"]):
        if rep.get("rejected"):
            rejected = rep
        elif "fails" in rep:
            reports.append(rep)
    if res["error"] or not res["finished"]:
        raise vlib.FrameworkError("trace validation failed on %s: %s" % (path, (res["error"] or res["out"][-1500:])))
    if rejected is not None:
        raise vlib.FrameworkError("trace %s desynchronised from the trace specification at line %s (%s)" % (
            path, rejected.get("line"), rejected.get("ev")))
    return res, reports


def load_runs(path):
    """run id -> list of events"""
    runs = {}
    with open(path) as f:
        for line in f:
            e = json.loads(line)
            runs.setdefault(e.get("run"), []).append(e)
    return runs


def record_and_validate(chk, flavour, exe_name, scen, total_runs, opts, seed_offset=0, shards=None,
                        module="TraceCircuit", cfg=None, rec_timeout=3000):
    """Returns (list of (report, run_events, shardpath), stats, all runs dict)."""
    exe = vlib.build_exe(flavour, exe_name)
    shards = shards or min(vlib.NCPU, max(1, total_runs // 8))
    per = (total_runs + shards - 1) // shards
    d = vlib.scratch("%s-%s-%s" % (chk.pid, scen, flavour))
    seed = chk.seed * 7919 + seed_offset
    jobs = []
    with concurrent.futures.ThreadPoolExecutor(shards) as ex:
        for s in range(shards):
            out = os.path.join(d, "shard%02d.ndjson" % s)
            jobs.append(ex.submit(_record_shard, exe, out, scen, seed, s * per, per, opts, rec_timeout))
        paths = [j.result() for j in jobs]
    with concurrent.futures.ThreadPoolExecutor(shards) as ex:
        vals = list(ex.map(lambda p: _validate(p, module, cfg), paths))
    results = []
    allruns = {}
    states = 0
    for p, (res, reports) in zip(paths, vals):
        states += res["distinct"]
        runs = load_runs(p)
        allruns.update(runs)
        for rep in reports:
            results.append((rep, runs.get(rep["run"], []), p))
    chk.cov["traces_validated_against_impl"] += len(allruns)
    chk.cov["states"] += states
    chk.cov["transitions"] += states
    chk.step("trace validation %s/%s/%s" % (exe_name, scen, flavour), runs=len(allruns), events=states,
             reports=len(results), opts=opts)
    return results, d, allruns, exe


def confirm(exe, run_events, scen, pid, sig, workdir, module="TraceCircuit", cfg=None, extra_args=()):
    """Re-record one run alone from its Reset line and validate again: True if the same property fails again."""
    reset = [e for e in run_events if e.get("e") in ("Reset", "AlgoBegin")]
    if not reset:
        return False
    h = hashlib.sha1(json.dumps(reset[0], sort_keys=True).encode()).hexdigest()[:10]
    rp = os.path.join(workdir, "confirm-%s.reset" % h)
    with open(rp, "w") as f:
        f.write(json.dumps(reset[0]) + "\n")
    out = os.path.join(workdir, "confirm-%s.ndjson" % h)
    rc, so, se = vlib.run_exe(exe, ["out=" + out, "replay=" + rp, "scen=" + scen] + list(extra_args), timeout=1500)
    if rc != 0:
        raise vlib.FrameworkError("replay recorder failed: %s" % (se or "")[-500:])
    res, reports = _validate(out, module, cfg)
    for rep in reports:
        for f in rep["fails"]:
            if f["p"] == pid and (sig is None or f["sig"] == sig):
                return True
    return False


def confirm_cases(exe, cases_path, run_id, pid, sig, workdir, module, extra_args=()):
    """A rejected instance of a TLC-emitted case stream did not repeat alone: re-execute the whole stream it was part of (the
    failure may depend on the instances executed before it in the same process) and look for the same rejection."""
    out = os.path.join(workdir, "confirm-cases-%s.ndjson" % hashlib.sha1(cases_path.encode()).hexdigest()[:8])
    rc, so, se = vlib.run_exe(exe, ["out=" + out, "cases=" + cases_path] + list(extra_args), timeout=6000)
    if rc != 0:
        raise vlib.FrameworkError("recorder failed on cases: %s" % (se or "")[-500:])
    res, reports = _validate(out, module, None)
    return any(rep["run"] == run_id and f["p"] == pid and (sig is None or f["sig"] == sig) for rep in reports for f in rep["fails"])


def attribute(chk, results, pid, exe, scen, flavour, workdir, max_confirm=6, also=(), module="TraceCircuit", exe_name="record",
              keep_events=False):
    """Turn TLC's contract-failure reports for property `pid` into violations / known findings."""
    confirmed = 0
    unconfirmed = []
    seen = set()
    for rep, events, path in results:
        for f in rep["fails"]:
            if f["p"] == "framework":
                # the harness itself failed (bad control run, recorder error): never a verdict about the code
                raise vlib.FrameworkError("harness failure in run %s (%s/%s): %s" % (rep["run"], scen, flavour, json.dumps(f["why"])[:600]))
    for rep, events, path in results:
        for f in rep["fails"]:
            if f["p"] != pid and f["p"] not in also:
                continue
            key = (rep["run"], f["sig"])
            if key in seen:
                continue
            seen.add(key)
            reset = [e for e in events if e.get("e") in ("Reset", "AlgoBegin")]
            replay = {"kind": "trace", "exe": exe_name, "module": module, "scen": scen, "flavour": flavour, "reset": reset[0] if reset else None,
                      "line": rep.get("line"), "event": rep.get("ev")}
            text = "%s at event %s of run %s (%s/%s): %s" % (f["p"], rep.get("ev"), rep["run"], scen, flavour,
                                                           json.dumps(f["why"])[:400])
            if keep_events:
                # schedule-dependent disagreement: the recorded run itself (both executions) is the evidence; it is
                # re-validated by TLC on replay rather than expected to repeat when re-recorded
                replay["events"] = events
                replay["kind"] = "trace-events"
            if f["sig"] in chk.findings:
                chk.violation(text, replay, f["sig"])
                continue
            if keep_events:
                if not confirm_events(events, f["p"], f["sig"], workdir, module):
                    raise vlib.FrameworkError("TLC did not reject the stored events of run %s again" % rep["run"])
            elif str(f["sig"]).startswith("timeout-"):
                # a hang must repeat with five times the budget when the run is re-recorded alone; a run that was merely slow
                # (loaded machine) is not a violation
                if chk.cov.get("_hangs_confirmed", 0) < 3:
                    if not confirm(exe, events, scen, f["p"], f["sig"], workdir, module=module, extra_args=["timeout=200"]):
                        chk.cov["slow_runs_not_hangs"] = chk.cov.get("slow_runs_not_hangs", 0) + 1
                        continue
                    chk.cov["_hangs_confirmed"] = chk.cov.get("_hangs_confirmed", 0) + 1
            elif confirmed < max_confirm:
                ok = confirm(exe, events, scen, f["p"], f["sig"], workdir, module=module)
                cases_path = path[:-len(".ndjson")] + ".txt" if path.endswith(".ndjson") else None
                if not ok and cases_path and os.path.exists(cases_path) and "cases" in os.path.basename(cases_path):
                    ok = confirm_cases(exe, cases_path, rep["run"], f["p"], f["sig"], workdir, module)
                    if ok:
                        replay["kind"] = "cases-stream"
                        replay["cases"] = [l.rstrip("\n") for l in open(cases_path)]
                if not ok:
                    # not reproducible when re-recorded alone (it may depend on uninitialised or stale memory): never reported on its
                    # own; other rejected runs are tried, and if none of them repeats either the check ends as a machinery failure
                    unconfirmed.append("run %s: %s" % (rep["run"], text))
                    chk.cov["unconfirmed_rejections"] = chk.cov.get("unconfirmed_rejections", 0) + 1
                    if len(unconfirmed) >= 8 and confirmed == 0 and not chk.violations:
                        raise vlib.FrameworkError("rejections did not repeat when re-recorded alone: %s" % unconfirmed[0])
                    continue
                confirmed += 1
            chk.violation(text, replay, f["sig"])
    if unconfirmed and confirmed == 0 and not chk.violations:
        raise vlib.FrameworkError("rejections did not repeat when re-recorded alone: %s" % unconfirmed[0])


def confirm_events(events, pid, sig, workdir, module="TraceCircuit"):
    h = hashlib.sha1(json.dumps(events, sort_keys=True).encode()).hexdigest()[:10]
    out = os.path.join(workdir, "events-%s.ndjson" % h)
    with open(out, "w") as f:
        for e in events:
            f.write(json.dumps(e) + "\n")
    res, reports = _validate(out, module, None)
    return any(f["p"] == pid and (sig is None or f["sig"] == sig) for rep in reports for f in rep["fails"])


def replay_file(path):
    """Re-execute a replay file written by attribute(): exit 1 if the violation repeats."""
    data = json.load(open(path))
    rp = data["replay"]
    d = vlib.scratch("replay")
    if rp.get("kind") == "trace-events":
        ok = confirm_events(rp["events"], data["property"], None, d, rp.get("module", "TraceCircuit"))
        shutil.rmtree(d, ignore_errors=True)
        if ok:
            print("VIOLATION property=%s replay=%s" % (data["property"], path))
            print("  what (recorded executions, re-validated by TLC): " + data["what"][:500])
            return 1
        print("replay %s: TLC accepts the stored events" % path)
        return 0
    exe = vlib.build_exe(rp["flavour"], rp.get("exe", "record"))
    if rp.get("kind") == "cases-stream":
        cp = os.path.join(d, "cases00.txt")
        with open(cp, "w") as f:
            f.write("\n".join(rp["cases"]) + "\n")
        run_id = rp["reset"]["run"] if rp.get("reset") else None
        ok = confirm_cases(exe, cp, run_id, data["property"], None, d, rp.get("module", "TraceAlgo"))
    else:
        ok = confirm(exe, [rp["reset"]], rp["scen"], data["property"], None, d, module=rp.get("module", "TraceCircuit"))
    shutil.rmtree(d, ignore_errors=True)
    if ok:
        print("VIOLATION property=%s replay=%s" % (data["property"], path))
        print("  what: " + data["what"][:500])
        return 1
    print("replay %s: the violation did not repeat" % path)
    return 0


def cases_and_validate(chk, flavour, exe_name, cases_path, name, module="TraceAlgo", shards=None, extra_args=()):
    """TLC-emitted instances (lines {"scen":..,"inst":..}) executed by the real code, results validated by TLC."""
    exe = vlib.build_exe(flavour, exe_name)
    d = vlib.scratch("%s-cases-%s" % (chk.pid, flavour))
    lines = [l for l in open(cases_path) if l.startswith('"{') or l.startswith("{")]
    if not lines:
        raise vlib.FrameworkError("no cases emitted for " + name)
    shards = shards or min(vlib.NCPU, max(1, len(lines) // 8))
    per = (len(lines) + shards - 1) // shards
    paths = []
    k = 0
    for s in range(shards):
        part = lines[s * per:(s + 1) * per]
        if not part:
            continue
        cp = os.path.join(d, "cases%02d.txt" % s)
        with open(cp, "w") as f:
            for line in part:
                v = json.loads(json.loads(line)) if line.startswith('"') else json.loads(line)
                v["run"] = k
                k += 1
                f.write(json.dumps(v) + "\n")
        paths.append(cp)

    def one(cp):
        out = cp.replace(".txt", ".ndjson")
        rc, so, se = vlib.run_exe(exe, ["out=" + out, "cases=" + cp] + list(extra_args), timeout=6000)
        if rc != 0:
            raise vlib.FrameworkError("recorder failed on cases: %s" % (se or "")[-500:])
        return out
    with concurrent.futures.ThreadPoolExecutor(len(paths)) as ex:
        outs = list(ex.map(one, paths))
    with concurrent.futures.ThreadPoolExecutor(len(paths)) as ex:
        vals = list(ex.map(lambda p: _validate(p, module, None), outs))
    results = []
    allruns = {}
    states = 0
    for p, (res, reports) in zip(outs, vals):
        states += res["distinct"]
        runs = load_runs(p)
        allruns.update(runs)
        for rep in reports:
            results.append((rep, runs.get(rep["run"], []), p))
    chk.cov["traces_validated_against_impl"] += len(allruns)
    chk.cov["states"] += states
    chk.cov["transitions"] += states
    chk.step("spec instances executed by the code and validated (%s, %s)" % (name, flavour), instances=len(allruns), reports=len(results))
    return results, d, allruns, exe
