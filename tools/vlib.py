"""Shared machinery for the /verif checks: builds of /repo's working tree, TLC runs,
evidence files, known findings, verdicts.  See DESIGN.md section 4."""
import concurrent.futures
import glob
import hashlib
import json
import os
import re
import shutil
import subprocess
import sys
import time

VERIF = os.path.dirname(os.path.dirname(os.path.abspath(__file__)))
REPO = os.environ.get("VERIF_REPO", "/repo")
BUILD = os.path.join(VERIF, "build")
SPEC = os.path.join(VERIF, "spec")
HARNESS = os.path.join(VERIF, "harness")
GUARD = "COLOQUINTE_VERIF"
JAR = "/opt/veriftools/tla/tla2tools.jar:/opt/veriftools/tla/CommunityModules-deps.jar"
NCPU = os.cpu_count() or 4


class FrameworkError(Exception):
    """The machinery failed (exit 2); never presented as a violation."""


FLAVOURS = {
    # matches the pinned build (assertions compiled out)
    "rel": ["g++", "-O2", "-DNDEBUG", "-g0"],
    # README's default CMake configuration: no NDEBUG, assertions on
    "dbg": ["g++", "-O1", "-g0"],
    "asan": ["clang++", "-O1", "-g", "-fno-omit-frame-pointer", "-fsanitize=address"],
    "asan-ubsan": ["clang++", "-O1", "-g", "-fno-omit-frame-pointer",
                   "-fsanitize=address,undefined,float-cast-overflow",
                   "-fno-sanitize-recover=all"],
    "ubsan-rel": ["clang++", "-O2", "-DNDEBUG", "-g", "-fsanitize=undefined,float-cast-overflow",
                  "-fno-sanitize-recover=all"],
    "tsan": ["clang++", "-O1", "-g", "-fsanitize=thread"],
}
COMMON = ["-std=c++17", "-fPIC", "-w", "-rdynamic", "-D" + GUARD, "-I" + os.path.join(REPO, "src"),
          "-I/usr/include/eigen3", "-I" + HARNESS]


def sh(cmd, **kw):
    return subprocess.run(cmd, stdout=subprocess.PIPE, stderr=subprocess.STDOUT, text=True, **kw)


def _hash_files(paths, extra=""):
    h = hashlib.sha256(extra.encode())
    for p in sorted(paths):
        h.update(p.encode())
        with open(p, "rb") as f:
            h.update(f.read())
    return h.hexdigest()[:16]


def repo_sources():
    return sorted(glob.glob(os.path.join(REPO, "src", "**", "*.cpp"), recursive=True))


def repo_all():
    return sorted(glob.glob(os.path.join(REPO, "src", "**", "*.[ch]pp"), recursive=True))


def _prune(prefix, keep=4, min_age_s=3600):
    """Drop old cache directories: never the `keep` most recent ones, never one used within the last hour (another check
    running concurrently may still be using it)."""
    ds = sorted(glob.glob(os.path.join(BUILD, prefix + "-*")), key=os.path.getmtime, reverse=True)
    now = time.time()
    for d in ds[keep:]:
        try:
            if now - os.path.getmtime(d) > min_age_s:
                shutil.rmtree(d, ignore_errors=True)
        except OSError:
            pass


def build_lib(flavour):
    """Compile /repo/src (current working tree, hooks on) into a static library."""
    flags = FLAVOURS[flavour]
    key = _hash_files(repo_all(), " ".join(flags + COMMON))
    out = os.path.join(BUILD, "lib-%s-%s" % (flavour, key))
    lib = os.path.join(out, "libcoloquinte.a")
    if os.path.exists(lib):
        os.utime(out)
        return lib
    tmp = out + ".tmp%d" % os.getpid()
    shutil.rmtree(tmp, ignore_errors=True)
    os.makedirs(tmp)
    srcs = repo_sources()

    def cc(src):
        obj = os.path.join(tmp, os.path.relpath(src, REPO).replace("/", "_") + ".o")
        r = sh(flags + COMMON + ["-c", src, "-o", obj])
        if r.returncode != 0:
            raise FrameworkError("compile failed: %s\n%s" % (src, r.stdout[-3000:]))
        return obj

    with concurrent.futures.ThreadPoolExecutor(NCPU) as ex:
        objs = list(ex.map(cc, srcs))
    r = sh(["ar", "rcs", os.path.join(tmp, "libcoloquinte.a")] + objs)
    if r.returncode != 0:
        raise FrameworkError("ar failed: " + r.stdout)
    shutil.rmtree(out, ignore_errors=True)
    os.rename(tmp, out)
    _prune("lib-" + flavour)
    return lib


def build_exe(flavour, name, sources=None, extra_flags=(), libs=()):
    """Compile a harness executable against the library of the same flavour."""
    lib = build_lib(flavour)
    sources = sources or [os.path.join(HARNESS, name + ".cpp")]
    sources = [s if os.path.isabs(s) else os.path.join(HARNESS, s) for s in sources]
    hdrs = glob.glob(os.path.join(HARNESS, "*.hpp"))
    flags = FLAVOURS[flavour]
    key = _hash_files(sources + hdrs, lib + " ".join(flags + list(extra_flags) + list(libs)))
    out = os.path.join(BUILD, "exe-%s-%s-%s" % (name, flavour, key))
    exe = os.path.join(out, name)
    if os.path.exists(exe):
        os.utime(out)
        return exe
    tmp = out + ".tmp%d" % os.getpid()
    shutil.rmtree(tmp, ignore_errors=True)
    os.makedirs(tmp)
    r = sh(flags + COMMON + list(extra_flags) + sources + ["-o", os.path.join(tmp, name), lib] +
           list(libs) + ["-lpthread"])
    if r.returncode != 0:
        errs = "\n".join([l for l in r.stdout.splitlines() if "error" in l][:12])
        raise FrameworkError("harness build failed: %s\n%s" % (name, errs or r.stdout[-3000:]))
    shutil.rmtree(out, ignore_errors=True)
    os.rename(tmp, out)
    _prune("exe-%s-%s" % (name, flavour))
    return exe


def build_many(jobs):
    """jobs: list of (flavour, name) or (flavour, name, kwargs); builds libraries first, then exes in parallel."""
    flavours = sorted({j[0] for j in jobs})
    with concurrent.futures.ThreadPoolExecutor(len(flavours) or 1) as ex:
        list(ex.map(build_lib, flavours))
    with concurrent.futures.ThreadPoolExecutor(len(jobs) or 1) as ex:
        futs = [ex.submit(build_exe, j[0], j[1], **(j[2] if len(j) > 2 else {})) for j in jobs]
        return [f.result() for f in futs]


# ---------------------------------------------------------------------------------- TLC

_tlc_counter = [0]


def tlc(module, cfg=None, workers=1, env=None, timeout=1800, xmx="8g", extra=(), stdin=None,
        stdout_path=None, simulate=None, coverage=False, deque=False):
    """Run TLC on spec/<module>.tla with spec/cfg/<cfg>.cfg.  Returns dict(out, stats...)."""
    _tlc_counter[0] += 1
    tag = "%d-%d-%d" % (os.getpid(), _tlc_counter[0], int(time.time() * 1000) % 100000)
    meta = os.path.join(BUILD, "tlc", tag)
    tmpd = os.path.join(BUILD, "tmp", tag)
    os.makedirs(meta, exist_ok=True)
    os.makedirs(tmpd, exist_ok=True)
    cfgp = os.path.join(SPEC, "cfg", (cfg or module) + ".cfg")
    jopts = ["-XX:+UseParallelGC", "-Xss64m", "-Xmx" + xmx, "-Djava.io.tmpdir=" + tmpd]
    if deque:
        jopts.append("-Dtlc2.tool.queue.IStateQueue=StateDeque")
    cmd = ["java"] + jopts + ["-cp", JAR, "tlc2.TLC", "-workers", str(workers), "-metadir", meta,
                               "-config", cfgp, "-noGenerateSpecTE"]
    if coverage:
        cmd += ["-coverage", "1"]
    if simulate:
        cmd += ["-simulate", simulate]
    cmd += list(extra) + [os.path.join(SPEC, module + ".tla")]
    e = dict(os.environ)
    e.pop("JAVA_TOOL_OPTIONS", None)
    if env:
        e.update({k: str(v) for k, v in env.items()})
    t0 = time.time()
    try:
        if stdout_path:
            with open(stdout_path, "w") as fo:
                p = subprocess.run(cmd, stdout=fo, stderr=subprocess.STDOUT, env=e, timeout=timeout,
                                   stdin=stdin, cwd=SPEC)
            out = open(stdout_path).read()
        else:
            p = subprocess.run(cmd, stdout=subprocess.PIPE, stderr=subprocess.STDOUT, env=e,
                               timeout=timeout, stdin=stdin, text=True, cwd=SPEC)
            out = p.stdout
        rc = p.returncode
    except subprocess.TimeoutExpired:
        raise FrameworkError("TLC timed out after %ds: %s %s" % (timeout, module, cfg))
    finally:
        shutil.rmtree(meta, ignore_errors=True)
        shutil.rmtree(tmpd, ignore_errors=True)
    res = parse_tlc(out)
    res.update(rc=rc, wall=time.time() - t0, module=module, cfg=cfg or module)
    return res


def parse_tlc(out):
    res = {"out": out, "generated": 0, "distinct": 0, "violated": [], "error": None, "finished": False,
           "coverage": {}}
    m = re.findall(r"(\d+) states generated, (\d+) distinct states found", out)
    if m:
        res["generated"], res["distinct"] = int(m[-1][0]), int(m[-1][1])
    res["violated"] = re.findall(r"Invariant (\S+) is violated", out)
    res["violated"] += ["<action-property>"] * len(re.findall(r"Action property .* is violated", out))
    res["violated"] += ["<temporal>"] * len(re.findall(r"Temporal properties were violated", out))
    res["finished"] = "Model checking completed" in out or "Finished in" in out
    if re.search(r"(Parsing or semantic analysis failed|ConfigFileException|Error: TLC threw|"
                 r"TLC encountered an unexpected exception|was not able to|Evaluating|"
                 r"Error: .*(evaluat|overflow|attempted|undefined))", out) and not res["violated"]:
        m2 = re.search(r"Error:.*(?:\n.*){0,12}", out)
        res["error"] = m2.group(0) if m2 else "TLC error"
    if res["error"] is None and not res["violated"]:
        m3 = re.search(r"^Error: (?!Invariant|Action property|Temporal)(.*(?:\n.*){0,10})", out, re.M)
        if m3 and "Postcondition" not in m3.group(0):
            res["error"] = m3.group(0)
    if "Parsing or semantic analysis failed" in out:
        res["error"] = out[-2500:]
    # -coverage 1: "<Action line …>: taken:generated"
    for a, d, g in re.findall(r"^<(\w+) line [^>]*>: (\d+):(\d+)", out, re.M):
        c = res["coverage"].setdefault(a, [0, 0])
        c[0] += int(d)
        c[1] += int(g)
    return res


def tlc_ok(res, what=""):
    """Raise FrameworkError unless the TLC run completed without error (violations are reported separately)."""
    if res["error"] or (not res["finished"] and not res["violated"]):
        raise FrameworkError("TLC run failed (%s %s): %s" % (res["module"], what, (res["error"] or res["out"][-2500:])))
    return res


def tlc_strings(out):
    """Yield the JSON payloads of PrintT(ToJson(..)) lines (TLC prints them as TLA+ string literals)."""
    for line in out.splitlines():
        if line.startswith('"') and line.endswith('"') and len(line) > 2 and line[1] in "{[":
            yield json.loads(json.loads(line))


def sany_all():
    bad = []
    for f in sorted(glob.glob(os.path.join(SPEC, "*.tla"))):
        r = sh(["java", "-cp", JAR, "tla2sany.SANY", f], cwd=SPEC)
        if "Semantic errors" in r.stdout or "***Parse Error***" in r.stdout or "Fatal" in r.stdout or r.returncode != 0:
            bad.append((f, r.stdout[-1500:]))
    return bad


# ---------------------------------------------------------------------------------- findings / verdicts

def load_findings():
    """KNOWN_FINDINGS.txt: lines `open: property=<id> key=<signature> <text>` and `fixed: property=<id> <commit> <text>`."""
    res = {}
    p = os.path.join(VERIF, "KNOWN_FINDINGS.txt")
    if not os.path.exists(p):
        return res
    for line in open(p):
        line = line.strip()
        m = re.match(r"open:\s+property=(\S+)\s+key=(\S+)\s+(.*)", line)
        if m:
            res.setdefault(m.group(1), {})[m.group(2)] = m.group(3)
    return res


class Check:
    """Collects what one run of one property's check covered and decides the exit status."""

    def __init__(self, pid, level, tier=None, seed=None):
        self.pid = pid
        self.level = level
        self.tier = tier or os.environ.get("VERIF_TIER", "quick")
        if self.tier not in ("quick", "thorough"):
            self.tier = "quick"
        try:
            self.seed = int(seed if seed is not None else os.environ.get("VERIF_SEED", "1"))
        except ValueError:
            self.seed = 1
        self.t0 = time.time()
        self.cov = {"evaluations": 0, "distinct_nontrivial": 0, "rule": "", "samples": [],
                    "states": 0, "transitions": 0, "traces_validated_against_impl": 0,
                    "steps": []}
        self.assumptions = []
        self.violations = []     # (signature, text, replay dict)
        self.known = {}
        self.findings = load_findings().get(pid, {})
        self._nontrivial = set()
        self.replay_dir = os.environ.get("VERIF_REPLAY_DIR", os.path.join(VERIF, "replays"))
        for f in glob.glob(os.path.join(self.replay_dir, pid + "-*.json")):
            os.unlink(f)

    @property
    def quick(self):
        return self.tier == "quick"

    def pick(self, q, t):
        return q if self.quick else t

    def step(self, name, **kw):
        d = {"step": name}
        d.update(kw)
        self.cov["steps"].append(d)
        print("[%s] %s %s" % (self.pid, name, json.dumps(kw, default=str)[:400]), flush=True)

    def add_tlc(self, res, name):
        self.cov["states"] += res["distinct"]
        self.cov["transitions"] += res["generated"]
        self.step(name, tlc_module=res["module"], cfg=res["cfg"], distinct=res["distinct"],
                  generated=res["generated"], wall_s=round(res["wall"], 1),
                  actions={k: v for k, v in list(res["coverage"].items())[:40]})

    def sample(self, s, limit=6):
        if len(self.cov["samples"]) < limit:
            self.cov["samples"].append(s)

    def count(self, n=1):
        self.cov["evaluations"] += n

    def nontrivial(self, key):
        self._nontrivial.add(key if isinstance(key, (str, int)) else json.dumps(key, sort_keys=True))

    def violation(self, text, replay, signature=None):
        """A contract-level disagreement on the real code.  `signature` is matched against open findings."""
        if signature and signature in self.findings:
            self.known.setdefault(signature, [0, text])[0] += 1
            return
        self.violations.append((signature, text, replay))

    def finish(self):
        self.cov["distinct_nontrivial"] = len(self._nontrivial) + self.cov.pop("_dn_extra", 0)
        self.cov.pop("_hangs_confirmed", None)
        ev = {"property_id": self.pid, "tier": self.tier, "seed": self.seed, "level": self.level,
              "coverage": self.cov, "assumptions": self.assumptions,
              "wall_s": round(time.time() - self.t0, 2), "violations": len(self.violations)}
        if self.known:
            ev["coverage"]["known_findings_hit"] = {k: v[0] for k, v in self.known.items()}
        os.makedirs(os.path.join(VERIF, "evidence"), exist_ok=True)
        with open(os.path.join(VERIF, "evidence", self.pid + os.environ.get("VERIF_EVIDENCE_SUFFIX", "") + ".json"), "w") as f:
            json.dump(ev, f, indent=1, default=str)
        for k, (n, text) in self.known.items():
            print("KNOWN-FINDING: property=%s %s (key=%s, %d case(s) this run)" % (self.pid, self.findings[k], k, n))
        if self.violations:
            os.makedirs(self.replay_dir, exist_ok=True)
            seen = set()
            for sig, text, replay in self.violations[:20]:
                h = hashlib.sha1(json.dumps(replay, sort_keys=True, default=str).encode()).hexdigest()[:10]
                path = os.path.join(self.replay_dir, "%s-%s.json" % (self.pid, h))
                if path in seen:
                    continue
                seen.add(path)
                with open(path, "w") as f:
                    json.dump({"property": self.pid, "what": text, "signature": sig, "replay": replay}, f, indent=1, default=str)
                print("VIOLATION property=%s replay=%s" % (self.pid, path))
                print("  what: %s" % text[:600])
            return 1
        print("[%s] OK tier=%s wall=%.1fs evaluations=%d distinct_nontrivial=%d states=%d" % (
            self.pid, self.tier, time.time() - self.t0, self.cov["evaluations"],
            self.cov["distinct_nontrivial"], self.cov["states"]))
        return 0


def run_check(fn, pid):
    """Entry point wrapper: exit 0/1 from the check, 2 on machinery failure."""
    try:
        sys.exit(fn())
    except FrameworkError as e:
        print("FRAMEWORK-ERROR property=%s: %s" % (pid, e), file=sys.stderr)
        sys.exit(2)
    except SystemExit:
        raise
    except BaseException as e:   # a bug of the machinery itself must never look like a verdict (an uncaught exception would exit 1)
        import traceback
        traceback.print_exc()
        print("FRAMEWORK-ERROR property=%s: unexpected %s: %s" % (pid, type(e).__name__, e), file=sys.stderr)
        sys.exit(2)


def run_exe(exe, args=(), stdin_text=None, stdin_path=None, timeout=900, env=None, stdout_path=None):
    e = dict(os.environ)
    e.setdefault("ASAN_OPTIONS", "abort_on_error=0:detect_leaks=0:exitcode=97:allocator_may_return_null=1")
    e.setdefault("UBSAN_OPTIONS", "halt_on_error=1:print_stacktrace=1:exitcode=98")
    e.setdefault("TSAN_OPTIONS", "exitcode=96:halt_on_error=0")
    if env:
        e.update({k: str(v) for k, v in env.items()})
    fin = open(stdin_path) if stdin_path else None
    try:
        if stdout_path:
            with open(stdout_path, "w") as fo:
                p = subprocess.run([exe] + [str(a) for a in args], stdin=fin, input=None if fin else stdin_text,
                                   stdout=fo, stderr=subprocess.PIPE, text=True, timeout=timeout, env=e)
            return p.returncode, None, p.stderr
        p = subprocess.run([exe] + [str(a) for a in args], stdin=fin, input=None if fin else stdin_text,
                           stdout=subprocess.PIPE, stderr=subprocess.PIPE, text=True, timeout=timeout, env=e)
        return p.returncode, p.stdout, p.stderr
    except subprocess.TimeoutExpired:
        raise FrameworkError("harness timed out: %s" % exe)
    finally:
        if fin:
            fin.close()


def scratch(name):
    d = os.path.join(BUILD, "scratch", "%s-%d" % (name, os.getpid()))
    shutil.rmtree(d, ignore_errors=True)
    os.makedirs(d)
    return d
